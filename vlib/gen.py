"""Shared Hypothesis strategies.  Everything produced is a plain JSON value."""
from __future__ import annotations

import math
from fractions import Fraction

from hypothesis import strategies as st

# ---------------------------------------------------------------- timestamps


def grid_time(maxk: int = 80):
    """Dyadic grid k/8: float arithmetic on these is exact."""
    return st.integers(0, maxk).map(lambda k: k / 8)


@st.composite
def dec_time(draw, max_int: int = 60):
    """Non-dyadic decimals with 1-6 fractional digits, as a user would type."""
    d = draw(st.integers(1, 6))
    i = draw(st.integers(0, max_int))
    frac = draw(st.integers(0, 10**d - 1))
    return float(f"{i}.{frac:0{d}d}")


def _near_integer():
    return st.builds(
        lambda n, j: _step(float(n), j), st.integers(1, 10**6), st.integers(-4, 4)
    )


def _step(x: float, j: int) -> float:
    for _ in range(abs(j)):
        x = math.nextafter(x, math.inf if j > 0 else -math.inf)
    return x


def wild_time():
    """Everything the C01 quantifier names: 17-digit floats, near-integers,
    tiny values printed in exponent notation, large values up to 1e15."""
    return st.one_of(
        st.floats(0, 1e6, allow_nan=False, allow_infinity=False, allow_subnormal=False),
        st.floats(0, 100, allow_nan=False, allow_infinity=False, allow_subnormal=False),
        _near_integer(),
        st.floats(1e-17, 1e-4, allow_nan=False, allow_subnormal=False),
        st.floats(1e6, 1e15, allow_nan=False, allow_infinity=False),
        st.integers(0, 10**15).map(float),
        # large integral times only a few units apart (exactly representable, written exactly)
        st.builds(lambda b, k: float(b + k), st.sampled_from([10**12, 9 * 10**14, 10**15 - 100]), st.integers(0, 50)),
        dec_time(),
        grid_time(),
    )


def time_of(style: str):
    return {"grid": grid_time(), "dec": dec_time(), "wild": wild_time()}[style]


STYLES = st.sampled_from(["grid", "dec", "dec", "wild"])
STYLES_ARITH = st.sampled_from(["grid", "dec", "dec"])


@st.composite
def boundaries(draw, style: str, n: int):
    """n distinct sorted times, built from positive increments (no rejection).
    For 'wild' the list may come out shorter than n (duplicates removed)."""
    if n <= 0:
        return []
    if style == "grid":
        incs = draw(st.lists(st.integers(1, 16), min_size=n, max_size=n))
        incs[0] = incs[0] - 1 if draw(st.booleans()) else 0  # often start at 0
        out, k = [], 0
        for i in incs:
            k += i
            out.append(k / 8)
        return out
    if style == "dec":
        d = draw(st.integers(1, 6))
        unit = 10**d
        incs = draw(st.lists(st.integers(1, 3 * unit), min_size=n, max_size=n))
        if draw(st.booleans()):
            incs[0] = 0
        out, k = [], 0
        for i in incs:
            k += i
            out.append(float(f"{k}e-{d}"))
        return out
    xs = draw(st.lists(time_of(style), min_size=n, max_size=n))
    return sorted(set(xs))


# ------------------------------------------------------------------- labels

SMALL_LABELS = st.sampled_from(["a", "b", "c", "", "a b", "A"])
AB = st.sampled_from(["a", "b"])
ABE = st.sampled_from(["a", "b", "", "a"])  # also blank-labelled entries (as kept by includeEmptyIntervals=True)

FORMAT_TOKENS = [
    "item [2]:",
    "item [",
    "item[1]:",
    "intervals [1]:",
    "intervals [",
    "points [1]:",
    "points [",
    '"IntervalTier"',
    '"TextTier"',
    'class = "IntervalTier"',
    'class = "TextTier"',
    'text = "x"',
    'mark = "',
    'name = "n"',
    "xmin = 3",
    "xmax = 4",
    "number = 1",
    "size = 2",
    "size = 0",
    "<exists>",
    "ooTextFile short",
    "ooTextFile",
    "1e-05",
    "intervals: size = 1",
    "\n! x",
    "\n  !",
    "\nxmax = 1.75\n",
    "\n xmin = 0.5 \n",
    "\nnumber = 2.5\n",
]

_ALPHABET = (
    ["a", "b", "Z", "0", "1", "7", " ", "\t", '"', '""', "\n", "=", ".", "-", "[", "]", ":", "<", ">", "!", ",", "(", ")", "_", "\\", "/", "'", "\n!c", "%", "%s", "%%", "%d"]
    + ["é", "ß", "日", "本", "́", "\U0001F600", "Ж", "a\ufeffb"]
    + ["\x0b", "\x0c", "\x1c", "\x85", " ", " "]
)


def _rich_text():
    return st.one_of(
        st.lists(st.sampled_from(_ALPHABET), max_size=8).map("".join),
        st.lists(st.sampled_from(_ALPHABET + FORMAT_TOKENS), min_size=1, max_size=4).map("".join),
        st.sampled_from(FORMAT_TOKENS),
        st.text(
            alphabet=st.characters(blacklist_categories=("Cs",), blacklist_characters="\r"),
            max_size=10,
        ),
        st.sampled_from(["", "a", '"', '""', '"""', 'a"', '"a', 'a"b', "a\nb", 'a"\nb', "x = 1", "3", "3.5", "a\n!b\nc", "!a", "a\n \t! b", "a\nxmax = 1.75\nb", "x\nnumber = 2.5\ny", "t\n    xmin = 0.5 \nu\nv", "first line \nsecond", "k =\t\nv = 12", "a  \n \nb"]),
    )


def labels(tokens: bool = True):
    """Trimmed labels (str.strip() is the library's normal form), no CR."""
    base = _rich_text() if tokens else st.lists(st.sampled_from(_ALPHABET), max_size=8).map("".join)
    return base.map(lambda s: s.replace("\r", "").strip())


def names(tokens: bool = True):
    """Tier names: non-empty, single-line, trimmed."""
    return labels(tokens).map(lambda s: "".join(s.splitlines()).replace("\n", "").strip()).filter(
        lambda s: s != "" and s == s.strip() and "\n" not in s
    )


# -------------------------------------------------------------------- tiers


@st.composite
def interval_tier(draw, style=None, max_segments: int = 6, label=SMALL_LABELS, name="t",
                  allow_empty: bool = True, span: str = "any", nonempty_labels: bool = False):
    """A well-formed interval tier spec: consecutive segments over sorted
    boundaries are each an interval or a gap, so touching intervals, gaps and
    empty tiers all occur by construction."""
    if style is None:
        style = draw(STYLES_ARITH)
    m = draw(st.integers(0 if allow_empty else 1, max_segments))
    bs = draw(boundaries(style, m + 1))
    m = len(bs) - 1
    segs = draw(st.lists(st.tuples(st.integers(0, 3), label), min_size=m, max_size=m))
    entries = []
    for i in range(m):
        kind, lab = segs[i]
        if kind > 0 or (not allow_empty and i == 0):
            if nonempty_labels and lab == "":
                lab = "x"
            entries.append([bs[i], bs[i + 1], lab])
    lo, hi = bs[0], bs[-1]
    if span == "tight0":
        minT = 0.0
    else:
        minT = draw(st.sampled_from([0.0, lo]))
    if span == "any":
        extra = draw(st.sampled_from([0.0, 0.0, 1.0, 0.5, 0.25]))
    else:
        extra = 0.0
    maxT = hi + extra
    if maxT <= minT:
        maxT = minT + 1.0
    return {"type": "interval", "name": name if isinstance(name, str) else draw(name),
            "entries": entries, "minT": min(minT, lo), "maxT": maxT, "style": style}


@st.composite
def point_tier(draw, style=None, max_points: int = 6, label=SMALL_LABELS, name="p",
               allow_empty: bool = True, span: str = "any", dups: bool = False):
    if style is None:
        style = draw(STYLES_ARITH)
    m = draw(st.integers(0 if allow_empty else 1, max_points))
    ts = draw(boundaries(style, m + 1))
    m = len(ts) - 1
    keep = ts[:m] if draw(st.booleans()) else ts[1:]
    if dups and keep and draw(st.integers(0, 2)) == 0:
        # coinciding point times are legal (validate() is True); entries stay sorted by (time, label)
        i = draw(st.integers(0, len(keep) - 1))
        keep = sorted(keep + [keep[i]] * draw(st.integers(1, 2)))
    labs = draw(st.lists(label, min_size=len(keep), max_size=len(keep)))
    entries = sorted([t, l] for t, l in zip(keep, labs))
    lo, hi = ts[0], ts[-1]
    minT = 0.0 if span == "tight0" else draw(st.sampled_from([0.0, lo]))
    extra = draw(st.sampled_from([0.0, 0.0, 1.0, 0.5])) if span == "any" else 0.0
    maxT = hi + extra
    if maxT <= minT:
        maxT = minT + 1.0
    return {"type": "point", "name": name if isinstance(name, str) else draw(name),
            "entries": entries, "minT": min(minT, lo), "maxT": maxT, "style": style}


def any_tier(**kw):
    return st.one_of(interval_tier(**kw), point_tier(**{k: v for k, v in kw.items() if k != "max_segments" and k != "nonempty_labels"}))


@st.composite
def textgrid(draw, style=None, max_tiers: int = 3, label=SMALL_LABELS, clean: bool = True,
             min_tiers: int = 1, name_strategy=None, late_start: bool = False):
    """A Textgrid spec.  clean=True: every tier shares the textgrid span
    (validate() is True)."""
    if style is None:
        style = draw(STYLES_ARITH)
    n = draw(st.integers(min_tiers, max_tiers))
    tiers = []
    used = set()
    for i in range(n):
        if name_strategy is None:
            nm = f"t{i}"
        else:
            nm = draw(name_strategy.filter(lambda s: s not in used))
        used.add(nm)
        if draw(st.booleans()):
            t = draw(interval_tier(style=style, label=label, name=nm, span="tight0"))
        else:
            t = draw(point_tier(style=style, label=label, name=nm, span="tight0"))
        tiers.append(t)
    lo = min(t["minT"] for t in tiers)
    hi = max(t["maxT"] for t in tiers)
    if clean:
        hi = hi + draw(st.sampled_from([0.0, 0.0, 1.0]))
        firsts = [e[0] for t in tiers for e in t["entries"]]
        if late_start and firsts and min(firsts) > 0 and draw(st.integers(0, 2)) == 0:
            lo = min(firsts)  # a textgrid that does not start at 0
        for t in tiers:
            t["minT"], t["maxT"] = lo, hi
    return {"tiers": tiers, "minT": lo, "maxT": hi, "style": style}


# ------------------------------------------------------------- exact helpers


def F(x) -> Fraction:
    return Fraction(x)


def ulp_tol(*operands: float, k: int = 4) -> float:
    m = max([abs(float(o)) for o in operands] + [1e-300])
    return k * math.ulp(m)


def close(got: float, exact, *operands: float, k: int = 4) -> bool:
    """|got - exact| <= k ulp(max |operand|); exact may be a Fraction."""
    ops = list(operands) + [float(exact), got]
    return abs(Fraction(got) - Fraction(exact)) <= Fraction(ulp_tol(*ops, k=k))


# ------------------------------------------------------------ I/O textgrids


def io_safe_boundaries(xs):
    """Sorted distinct times kept further apart than the rounding the C01
    statement allows (a value within 1e-14 relative of an integer may come back
    as that integer), so that allowed rounding can never collapse an interval."""
    out = []
    for x in sorted(set(xs)):
        both_integral = bool(out) and float(x).is_integer() and float(out[-1]).is_integer()  # written exactly by %d
        if not out or both_integral or x - out[-1] > 4e-14 * max(x, 1.0) + 1e-300:
            out.append(x)
    return out


@st.composite
def io_tier(draw, style, name, label, is_int=None, max_segments=5, explicit_empty=True, pool=None):
    if is_int is None:
        is_int = draw(st.booleans())
    m = draw(st.integers(0, max_segments))
    if pool is not None:
        # all tiers of one textgrid take their boundaries from one rounding-safe pool
        idx = sorted(set(draw(st.lists(st.integers(0, len(pool) - 1), min_size=1, max_size=m + 1))))
        bs = [pool[i] for i in idx]
    elif style == "wild":
        bs = io_safe_boundaries(draw(st.lists(wild_time(), min_size=m + 1, max_size=m + 1)))
    else:
        bs = draw(boundaries(style, m + 1))
    m = len(bs) - 1
    labs = draw(st.lists(st.tuples(st.integers(0, 3), label), min_size=m + 1, max_size=m + 1))
    entries = []
    if is_int:
        for i in range(m):
            kind, lab = labs[i]
            if kind > 0:
                if not explicit_empty and lab == "":
                    lab = "x"
                entries.append([bs[i], bs[i + 1], lab])
        return {"type": "interval", "name": name, "entries": entries, "minT": bs[0], "maxT": bs[-1], "style": style}
    for i in range(m + 1):
        kind, lab = labs[i]
        if kind > 0:
            if not explicit_empty and lab == "":
                lab = "x"
            entries.append([bs[i], lab])
    return {"type": "point", "name": name, "entries": entries, "minT": bs[0], "maxT": bs[-1], "style": style}


@st.composite
def io_textgrid(draw, rich=True, tokens=True, max_tiers=4, clean=True, styles=("grid", "dec", "wild", "wild"),
                explicit_empty=True, unique_names=True, token_rate=4):
    """Textgrid spec for the I/O properties: rich labels/names, all timestamp classes.
    Format tokens are used in one textgrid out of `token_rate`."""
    style = draw(st.sampled_from(list(styles)))
    tokens = tokens and draw(st.integers(1, token_rate)) == 1
    lab = labels(tokens) if rich else SMALL_LABELS
    nm = names(tokens) if rich else st.sampled_from(["a", "b", "c", "d", "e"])
    n = draw(st.integers(1, max_tiers))
    if draw(st.integers(0, 11)) == 5:
        n = draw(st.integers(10, 12))  # two-digit tier indices (item [10]:)
    tiers, used = [], set()
    pool = None
    if style == "wild":
        # distinct boundaries anywhere in the textgrid (tiers and span) stay further apart than the rounding C01 allows
        raw = draw(st.lists(wild_time(), min_size=2, max_size=9))
        if draw(st.integers(0, 2)) == 0:
            # a cluster of large integral times a few units apart: intervals far shorter than 1e-14 of their position
            b = draw(st.sampled_from([10**12, 9 * 10**14, 10**15 - 100]))
            raw += [float(b + k) for k in draw(st.lists(st.integers(0, 50), min_size=2, max_size=3, unique=True))]
        pool = io_safe_boundaries(raw)
        if len(pool) < 2:
            pool = io_safe_boundaries(pool + [pool[0] + 1.0])
    for i in range(n):
        name = draw(nm)
        if unique_names:
            k = 2
            base = name
            while name in used:
                name = f"{base}_{k}"
                k += 1
        used.add(name)
        tiers.append(draw(io_tier(style, name, lab, explicit_empty=explicit_empty, pool=pool, max_segments=5 if n < 10 else 2)))
    if tokens and rich and draw(st.integers(0, 2)) == 0:
        # the class words of the format inside the text of a tier of the *other* class
        t = tiers[draw(st.integers(0, len(tiers) - 1))]
        other = "IntervalTier" if t["type"] == "point" else "TextTier"
        word = draw(st.sampled_from([f'"{other}"', other, f'class = "{other}"', f'x "{other}" y', "see item[2] below", "item[1]"]))
        if t["entries"]:
            t["entries"][draw(st.integers(0, len(t["entries"]) - 1))][-1] = word
        elif not unique_names or word not in used:
            t["name"] = word
            used.add(word)
    lo = 0.0 if draw(st.integers(0, 3)) > 0 else min(t["minT"] for t in tiers)
    if pool is not None and 0 < min(t["minT"] for t in tiers) <= 4e-14:
        lo = min(t["minT"] for t in tiers)
    lo = min([lo] + [t["minT"] for t in tiers])
    hi = max(t["maxT"] for t in tiers)
    if hi <= lo:
        hi = lo + 1.0
    if clean:
        if draw(st.integers(0, 3)) == 0:
            hi2 = hi + 1.0
            if hi2 - hi > 4e-14 * hi2:
                hi = hi2
        for t in tiers:
            t["minT"], t["maxT"] = lo, hi
    else:
        for t in tiers:
            if t["maxT"] <= t["minT"]:
                t["maxT"] = t["minT"] + 1.0
        hi = max([hi] + [t["maxT"] for t in tiers])
    return {"tiers": tiers, "minT": lo, "maxT": hi, "style": style}


def near_values(x: float):
    """Floats that are not equal to x but closer than the library's fuzzy comparisons (1e-14 and 1e-9 relative)."""
    out = []
    for k in (1, 3):
        up, dn = x, x
        for _ in range(k):
            up, dn = math.nextafter(up, math.inf), math.nextafter(dn, -math.inf)
        out += [up, dn]
    out += [x * (1 + 2.0 ** -36), x * (1 - 2.0 ** -36)]
    return [v for v in out if v >= 0 and v != x]


def min_gap(spec) -> float:
    """Smallest positive distance between any two boundaries (entries and spans) of a textgrid spec."""
    xs = sorted({spec["minT"], spec["maxT"]} | {x for t in spec["tiers"] for x in (t["minT"], t["maxT"])}
                | {x for t in spec["tiers"] for e in t["entries"] for x in e[:-1]})
    gaps = [b - a for a, b in zip(xs, xs[1:])]
    return min(gaps) if gaps else float("inf")
