"""Coverage-guided campaign (atheris / libFuzzer) over a Hypothesis strategy.

usage: python -m vlib.fuzz <Cnn> <check> <runs> <seed> <out.json> [corpus files...]

The bytes libFuzzer mutates are decoded by Hypothesis' ``fuzz_one_input`` into
the same structured case dicts the generated search uses, so the semantic
oracle of the check (round trip / differential) runs inside the target and the
coverage feedback comes from the instrumented praatio package.  A failing case
is written to <out.json>; the campaign then stops (libFuzzer stops at the
first crash).
"""
import json
import os
import sys
import time


def main():
    prop, check_name, runs, seed, out = sys.argv[1:6]
    corpus_seeds = sys.argv[6:]
    here = os.path.dirname(os.path.dirname(os.path.abspath(__file__)))
    sys.path.insert(0, here)
    import atheris

    repo = os.path.abspath(os.environ.get("VERIF_REPO", "/repo"))
    sys.path.insert(0, repo)
    with atheris.instrument_imports(include=["praatio"], enable_loader_override=False):
        import praatio  # noqa
        from praatio import textgrid, klattgrid, data_points, audio, praatio_scripts  # noqa
    assert os.path.abspath(praatio.__file__).startswith(repo + os.sep), praatio.__file__

    from vlib import run as runner
    from vlib import pio
    from hypothesis import given, settings, HealthCheck

    mod = __import__(f"props.{prop.lower()}", fromlist=["x"])
    check = next(c for c in mod.CHECKS if c.name == check_name)
    rec = runner._Recorder(mod, check)
    state = {"fail": None}

    @settings(database=None, deadline=None, suppress_health_check=list(HealthCheck))
    @given(check.strategy("thorough"))
    def test(case):
        try:
            rec.evaluate(case)
        except runner.Violation as v:
            state["fail"] = {"check": check.name, "clause": v.clause, "message": v.message, "case": case}
            raise

    def target(data):
        if state["fail"] is not None:
            return
        try:
            test.hypothesis.fuzz_one_input(data)
        except runner.Violation:
            finish()
            os._exit(77)

    t0 = time.time()

    def finish():
        res = rec.res
        body = {
            "evaluations": res.evaluations,
            "nontrivial": len(res.nontrivial_digests) + res.nontrivial_count,
            "classes": res.classes,
            "excluded_known": res.excluded_known,
            "violation": state["fail"],
            "wall_s": round(time.time() - t0, 1),
        }
        with open(out, "w") as fd:
            json.dump(body, fd)

    import atexit  # not run by libFuzzer's exit; finish() is also called from the runs loop below

    corpus = os.path.join(pio.tmpdir(), "corpus")
    os.makedirs(corpus, exist_ok=True)
    for i, f in enumerate(corpus_seeds):
        with open(f, "rb") as fd, open(os.path.join(corpus, f"seed{i}"), "wb") as o:
            o.write(fd.read())
    # libFuzzer starts from tiny inputs, which Hypothesis rejects as too short and which therefore give
    # no coverage signal: bootstrap with deterministic pseudo-random buffers (a SHA-256 counter stream of the seed)
    import hashlib

    for i in range(48):
        buf = b"".join(hashlib.sha256(f"{seed}:{i}:{j}".encode()).digest() for j in range(16 + 8 * (i % 8)))
        with open(os.path.join(corpus, f"boot{i}"), "wb") as o:
            o.write(buf)
    argv = [sys.argv[0], corpus, f"-runs={int(runs)}", f"-seed={int(seed) or 1}", "-max_len=4096", "-print_final_stats=0", "-verbosity=0"]

    # libFuzzer calls exit() itself when the runs are used up; write the result from the last call
    count = {"n": 0}
    total = int(runs)

    def counted(data):
        count["n"] += 1
        target(data)
        if count["n"] % 500 == 0 or count["n"] >= total:
            finish()
        # the scratch directory (corpus included) is removed by the parent process (run_fuzz_campaign)

    atheris.Setup(argv, counted)
    atheris.Fuzz()


if __name__ == "__main__":
    main()
