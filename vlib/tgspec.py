"""Independent TextGrid reader and writers, written from Praat's manual page
"TextGrid file formats" (and the README for the two JSON schemas) - not from
praatio's code.

Reader: Praat reads a text file as a sequence of *free-standing* numbers,
double-quoted strings ("" inside a string is a literal quote; strings may span
lines), <flags>, and ignores everything else ('xmin =', 'item [1]:',
'intervals: size =') as well as '!' comments.  One reader therefore serves the
long and the short layout.

Data model (plain dict):
    {"xmin": f, "xmax": f, "tiers": [{"class": "IntervalTier"|"TextTier", "name": s,
      "xmin": f, "xmax": f, "entries": [[s, e, label] | [t, label], ...]}]}
"""
from __future__ import annotations

import json
import re
from typing import Any, Dict, List, Tuple

NUM_RE = re.compile(r"[+-]?(\d+\.?\d*|\.\d+)([eE][+-]?\d+)?\Z")
WS = " \t\n\r\x0b\x0c"


class SpecError(Exception):
    pass


def tokenize(text: str) -> List[Tuple[str, Any]]:
    toks: List[Tuple[str, Any]] = []
    i, n = 0, len(text)
    if text.startswith("﻿"):
        i = 1
    while i < n:
        c = text[i]
        if c in WS:
            i += 1
            continue
        if c == '"':
            i += 1
            buf = []
            while True:
                if i >= n:
                    raise SpecError("unterminated string")
                ch = text[i]
                if ch == '"':
                    if i + 1 < n and text[i + 1] == '"':
                        buf.append('"')
                        i += 2
                        continue
                    i += 1
                    break
                buf.append(ch)
                i += 1
            if i < n and text[i] not in WS:
                raise SpecError(f"garbage after closing quote at {i}: {text[i:i+10]!r}")
            toks.append(("str", "".join(buf)))
            continue
        if c == "!":
            while i < n and text[i] != "\n":
                i += 1
            continue
        if c == "<":
            j = text.find(">", i)
            if j < 0:
                raise SpecError("unterminated flag")
            toks.append(("flag", text[i : j + 1]))
            i = j + 1
            continue
        j = i
        while j < n and text[j] not in WS:
            if text[j] == '"':
                raise SpecError(f"quote inside a bare word at {j}: {text[i:j+5]!r}")
            j += 1
        word = text[i:j]
        if NUM_RE.match(word):
            toks.append(("num", word))
        i = j
    return toks


def read_text(text: str) -> Dict[str, Any]:
    """Parse a long- or short-layout TextGrid document."""
    text = text.replace("\r\n", "\n")
    toks = tokenize(text)
    pos = 0

    def take(kind):
        nonlocal pos
        if pos >= len(toks):
            raise SpecError(f"missing {kind} token at end of file")
        k, v = toks[pos]
        if k != kind:
            raise SpecError(f"expected {kind}, found {k} {v!r} (token {pos})")
        pos += 1
        return v

    def num():
        return float(take("num"))

    def count():
        w = take("num")
        if not re.match(r"\d+\Z", w):
            raise SpecError(f"size is not a non-negative integer: {w!r}")
        return int(w)

    if take("str") != "ooTextFile":
        raise SpecError("not an ooTextFile")
    if take("str") != "TextGrid":
        raise SpecError("not a TextGrid")
    xmin, xmax = num(), num()
    if take("flag") != "<exists>":
        raise SpecError("missing <exists>")
    ntiers = count()
    tiers = []
    for _ in range(ntiers):
        cls = take("str")
        if cls not in ("IntervalTier", "TextTier"):
            raise SpecError(f"unknown tier class {cls!r}")
        name = take("str")
        tmin, tmax = num(), num()
        n = count()
        entries = []
        for _ in range(n):
            if cls == "IntervalTier":
                s, e = num(), num()
                entries.append([s, e, take("str")])
            else:
                t = num()
                entries.append([t, take("str")])
        tiers.append({"class": cls, "name": name, "xmin": tmin, "xmax": tmax, "entries": entries})
    if pos != len(toks):
        raise SpecError(f"{len(toks) - pos} leftover tokens after the last tier, first: {toks[pos]!r}")
    return {"xmin": xmin, "xmax": xmax, "tiers": tiers}


def _num_ok(x):
    return isinstance(x, (int, float)) and not isinstance(x, bool)


def read_json(text: str, schema: str) -> Dict[str, Any]:
    """Decode one of the README's JSON schemas strictly (no extra / missing keys)."""
    d = json.loads(text)
    if not isinstance(d, dict):
        raise SpecError("top level is not an object")
    tiers = []
    if schema == "json":
        if set(d) != {"start", "end", "tiers"} or not isinstance(d["tiers"], dict):
            raise SpecError(f"json schema: keys {sorted(d)}")
        xmin, xmax = d["start"], d["end"]
        for name, t in d["tiers"].items():
            if not isinstance(t, dict) or set(t) != {"type", "entries"}:
                raise SpecError(f"json schema: tier keys {sorted(t) if isinstance(t, dict) else t}")
            tiers.append({"class": t["type"], "name": name, "xmin": xmin, "xmax": xmax, "entries": t["entries"]})
    else:
        if set(d) != {"xmin", "xmax", "tiers"} or not isinstance(d["tiers"], list):
            raise SpecError(f"textgrid_json schema: keys {sorted(d)}")
        xmin, xmax = d["xmin"], d["xmax"]
        for t in d["tiers"]:
            if not isinstance(t, dict) or set(t) != {"class", "name", "xmin", "xmax", "entries"}:
                raise SpecError(f"textgrid_json schema: tier keys {sorted(t) if isinstance(t, dict) else t}")
            tiers.append({k: t[k] for k in ("class", "name", "xmin", "xmax", "entries")})
    if not (_num_ok(xmin) and _num_ok(xmax)):
        raise SpecError("span is not numeric")
    for t in tiers:
        if t["class"] not in ("IntervalTier", "TextTier") or not isinstance(t["name"], str):
            raise SpecError(f"bad tier header {t['class']!r} {t['name']!r}")
        if not (_num_ok(t["xmin"]) and _num_ok(t["xmax"])) or not isinstance(t["entries"], list):
            raise SpecError("bad tier span/entries")
        width = 3 if t["class"] == "IntervalTier" else 2
        ents = []
        for e in t["entries"]:
            if not isinstance(e, list) or len(e) != width or not all(_num_ok(x) for x in e[:-1]) or not isinstance(e[-1], str):
                raise SpecError(f"bad entry {e!r} in tier {t['name']!r}")
            ents.append([float(x) for x in e[:-1]] + [e[-1]])
        t["entries"] = ents
        t["xmin"], t["xmax"] = float(t["xmin"]), float(t["xmax"])
    return {"xmin": float(xmin), "xmax": float(xmax), "tiers": tiers}


def read_any(text: str, fmt: str) -> Dict[str, Any]:
    if fmt in ("json", "textgrid_json"):
        return read_json(text, fmt)
    return read_text(text)


# -------------------------------------------------------------------- writers


def fmt_num(x: float, style: str = "repr") -> str:
    """Number styles found in real files: shortest repr, integers without a
    fraction, 17 significant digits, exponent notation."""
    x = float(x)
    if style == "int" and x.is_integer() and abs(x) < 1e15:
        return str(int(x))
    if style == "17":
        s = "%.17g" % x
        return s
    if style == "exp":
        s = "%.16e" % x
        return s
    if style == "praat":  # integers print bare, others with up to 17 digits
        if x.is_integer() and abs(x) < 1e15:
            return str(int(x))
        return repr(x)
    return repr(x)


def q(s: str) -> str:
    return '"' + s.replace('"', '""') + '"'


def write_long(tg: Dict[str, Any], variant: str = "praat", num: str = "praat", neg_zero: bool = False) -> str:
    """Praat's long ("normal") layout; variant 'elan' reproduces ELAN's punctuation."""
    F = lambda x: fmt_num(x, num)

    def start(x):
        if neg_zero and float(x) == 0:
            return "-0"
        return F(x)

    out = ['File type = "ooTextFile"', 'Object class = "TextGrid"', ""]
    out += [f"xmin = {start(tg['xmin'])} ", f"xmax = {F(tg['xmax'])} ", "tiers? <exists> ", f"size = {len(tg['tiers'])} ", "item []: "]
    for i, t in enumerate(tg["tiers"], 1):
        out.append(f"    item[{i}]:" if variant == "elan" else f"    item [{i}]:")
        out.append(f'        class = {q(t["class"])} ')
        out.append(f'        name = {q(t["name"])} ')
        out.append(f"        xmin = {start(t['xmin'])} ")
        out.append(f"        xmax = {F(t['xmax'])} ")
        if t["class"] == "IntervalTier":
            out.append(f"        intervals: size = {len(t['entries'])} ")
            for j, (s, e, l) in enumerate(t["entries"], 1):
                out.append(f"        intervals [{j}]" + ("" if variant == "elan" else ":"))
                out.append(f"            xmin = {start(s)} ")
                out.append(f"            xmax = {F(e)} ")
                out.append(f"            text = {q(l)} ")
        else:
            out.append(f"        points: size = {len(t['entries'])} ")
            for j, (tm, l) in enumerate(t["entries"], 1):
                out.append(f"        points [{j}]" + ("" if variant == "elan" else ":"))
                out.append(f"            number = {start(tm)} ")
                out.append(f"            mark = {q(l)} ")
    return "\n".join(out) + "\n"


def write_short(tg: Dict[str, Any], num: str = "praat", neg_zero: bool = False) -> str:
    F = lambda x: fmt_num(x, num)

    def start(x):
        if neg_zero and float(x) == 0:
            return "-0"
        return F(x)

    out = ['File type = "ooTextFile"', 'Object class = "TextGrid"', "", start(tg["xmin"]), F(tg["xmax"]), "<exists>", str(len(tg["tiers"]))]
    for t in tg["tiers"]:
        out += [q(t["class"]), q(t["name"]), start(t["xmin"]), F(t["xmax"]), str(len(t["entries"]))]
        for e in t["entries"]:
            if t["class"] == "IntervalTier":
                out += [start(e[0]), F(e[1]), q(e[2])]
            else:
                out += [start(e[0]), q(e[1])]
    return "\n".join(out) + "\n"


def write_json(tg: Dict[str, Any], schema: str, ascii_only: bool = False) -> str:
    if schema == "json":
        d = {"start": tg["xmin"], "end": tg["xmax"],
             "tiers": {t["name"]: {"type": t["class"], "entries": t["entries"]} for t in tg["tiers"]}}
    else:
        d = {"xmin": tg["xmin"], "xmax": tg["xmax"],
             "tiers": [{"class": t["class"], "name": t["name"], "xmin": t["xmin"], "xmax": t["xmax"], "entries": t["entries"]} for t in tg["tiers"]]}
    return json.dumps(d, ensure_ascii=ascii_only, indent=None)


def selftest() -> None:
    tg = {"xmin": 0.0, "xmax": 2.5, "tiers": [
        {"class": "IntervalTier", "name": 'na"me item [2]:', "xmin": 0.0, "xmax": 2.5,
         "entries": [[0.0, 1.0, 'a "q" ""'], [1.0, 1.5e-05 + 1, "line1\nline2 = 3"], [2.0, 2.5, ""]]},
        {"class": "TextTier", "name": "p", "xmin": 0.0, "xmax": 2.5, "entries": [[1e-05, '"'], [2.0, "intervals [1]:"]]},
        {"class": "IntervalTier", "name": "e", "xmin": 0.0, "xmax": 2.5, "entries": []},
    ]}
    for text in (write_long(tg), write_long(tg, "elan", "17"), write_long(tg, num="exp"), write_short(tg), write_short(tg, "repr", True),
                 write_long(tg).replace("\n", "\r\n")):
        back = read_text(text)
        assert back == tg, (back, tg)
    for schema in ("json", "textgrid_json"):
        assert read_json(write_json(tg, schema), schema) == tg
    for bad in ('File type = "ooTextFile"\nObject class = "TextGrid"\n\n0\n1\n<exists>\n1\n"IntervalTier"\n"x"\n0\n1\n2\n0\n1\n"a"\n',
                write_short(tg).replace('""', '"', 1), write_short(tg) + "5\n"):
        try:
            read_text(bad)
        except SpecError:
            continue
        raise AssertionError("malformed document accepted: " + bad[:60])
