"""Runner for the praatIO property checks.

One property module (props/cNN.py) exposes

    PROPERTY   = "C06"
    RULE       = "<how cases are generated, what makes one non-trivial>"
    ASSUMPTIONS = [...]
    CHECKS     = [Check(...), ...]
    KNOWN      = {finding_id: predicate(case, violation) -> bool}   (optional)
    REQUIRED_CLASSES = [...]                                        (optional)
    selftest() -> None                                              (optional)

A Check turns *case dicts* (plain JSON values) into a verdict:
``run(case)`` returns an Info dict ``{"classes": [...], "nontrivial": bool}``
or raises ``Violation``.  Cases come from a Hypothesis strategy
(kind="gen") or from an enumerator (kind="enum").

Exit codes: 0 property held on everything explored, 1 violation (with a
``VIOLATION property=<id> replay=<path>`` line), 2 harness error.
"""
from __future__ import annotations

import hashlib
import json
import os
import sys
import time
import traceback
from dataclasses import dataclass, field
from typing import Any, Callable, Dict, Iterable, List, Optional

VERIF_DIR = os.path.dirname(os.path.dirname(os.path.abspath(__file__)))
REPO_DIR = os.path.abspath(os.environ.get("VERIF_REPO", "/repo"))


# --------------------------------------------------------------------------
# code under test


def setup_repo_import() -> None:
    """Import praatio from the working tree of REPO_DIR (the 'rebuild')."""
    os.environ["PRAATIO_VERIF"] = "1"
    if sys.path[0] != REPO_DIR:
        sys.path.insert(0, REPO_DIR)
    for name in [m for m in sys.modules if m == "praatio" or m.startswith("praatio.")]:
        del sys.modules[name]
    import praatio  # noqa

    here = os.path.abspath(praatio.__file__)
    if not here.startswith(REPO_DIR + os.sep):
        raise HarnessError(f"praatio imported from {here}, expected under {REPO_DIR}")


def praatio_dir() -> str:
    import praatio

    return os.path.dirname(os.path.abspath(praatio.__file__))


# --------------------------------------------------------------------------
# verdict types


class Violation(Exception):
    """The property does not hold for this case."""

    def __init__(self, clause: str, message: str = "", detail: Any = None):
        super().__init__(f"{clause}: {message}")
        self.clause = clause
        self.message = message
        self.detail = detail


CASE_TIME_LIMIT = 600.0


class CaseTimeout(Exception):
    pass


class HarnessError(Exception):
    pass


def exc_origin(exc: BaseException) -> Optional[str]:
    """'file.py:func' of the innermost praatio frame of exc's traceback, if the
    innermost frame of all lies inside the praatio package; else None."""
    tb = traceback.extract_tb(exc.__traceback__)
    if not tb:
        return None
    pdir = praatio_dir()
    last = tb[-1]
    inner_praatio = None
    for fr in tb:
        if os.path.abspath(fr.filename).startswith(pdir + os.sep):
            inner_praatio = fr
    if inner_praatio is None:
        return None
    # Exceptions raised by the stdlib on behalf of praatio code (struct.error,
    # ValueError from float(), ...) have their innermost *python* frame in
    # praatio as well because C frames are invisible; an exception whose
    # innermost frame is in /verif is a harness problem.
    if os.path.abspath(last.filename).startswith(VERIF_DIR + os.sep):
        return None
    return f"{os.path.basename(inner_praatio.filename)}:{inner_praatio.name}"


def is_praatio_error(exc: BaseException) -> bool:
    from praatio.utilities import errors

    return isinstance(exc, errors.PraatioException)


# --------------------------------------------------------------------------
# check description


@dataclass
class Check:
    name: str
    run: Callable[[dict], Optional[dict]]
    kind: str = "gen"  # "gen" | "enum"
    strategy: Optional[Callable[[str], Any]] = None  # tier -> hypothesis strategy
    enum: Optional[Callable[[str, int, int], Iterable[dict]]] = None  # tier, shard, nshards
    quick_n: int = 1000
    thorough_n: int = 20000  # per shard
    exhaustive: bool = False  # enum covers a finite space completely
    thorough_only: bool = False
    distinct_by_construction: bool = False
    doc: str = ""
    fuzz_runs: int = 0  # thorough tier: executions per coverage-guided (atheris) campaign, 4 campaigns


@dataclass
class ShardResult:
    check: str
    evaluations: int = 0
    nontrivial_digests: set = field(default_factory=set)
    nontrivial_count: int = 0  # used when distinct by construction
    classes: Dict[str, int] = field(default_factory=dict)
    excluded_known: Dict[str, int] = field(default_factory=dict)
    accepted_exceptions: Dict[str, int] = field(default_factory=dict)
    samples: List[Any] = field(default_factory=list)
    class_samples: Dict[str, Any] = field(default_factory=dict)
    violations: List[dict] = field(default_factory=list)
    harness_error: Optional[str] = None
    oracle_crashes: int = 0  # cases on which the check's own code raised (reported as a harness error unless a violation was found too)
    first_crash: Optional[str] = None
    space_size: int = 0
    wall_s: float = 0.0


def canon(case: Any) -> str:
    return json.dumps(case, sort_keys=True, ensure_ascii=True, allow_nan=False)


def digest(case: Any) -> bytes:
    return hashlib.sha1(canon(case).encode()).digest()[:8]


_NOTE: Dict[str, int] = {}


def note_accept(kind: str) -> None:
    """Record a contractual rejection (an accepted exception) seen by a check."""
    _NOTE[kind] = _NOTE.get(kind, 0) + 1


def _fresh_strings(obj):
    """A copy of the case in which every str is a distinct object equal to the original (as if read from a file or the
    command line): the library is given option values and labels by value, never the interned source literal."""
    if isinstance(obj, str):
        return "".join(list(obj)) if len(obj) > 1 else obj
    if isinstance(obj, list):
        return [_fresh_strings(x) for x in obj]
    if isinstance(obj, tuple):
        return tuple(_fresh_strings(x) for x in obj)
    if isinstance(obj, dict):
        return {k: _fresh_strings(v) for k, v in obj.items()}
    return obj


class _Recorder:
    def __init__(self, mod, check: Check):
        self.mod = mod
        self.check = check
        self.res = ShardResult(check=check.name)
        live = {f["id"] for f in load_ledger() if f["status"] == "known"}
        # only findings the committed ledger lists as known may exclude anything
        self.known = {k: v for k, v in getattr(mod, "KNOWN", {}).items() if k in live}
        self.last_fail = None

    def evaluate(self, case: dict) -> None:
        """Run one case; raise on an unknown violation."""
        res = self.res
        res.evaluations += 1
        import signal
        import threading

        # watchdog: no single case may hang the whole check (a library call that never returns); an overrun is a harness
        # error (inconclusive), never a violation - properties about termination set their own, much shorter, deadline
        armed = threading.current_thread() is threading.main_thread()
        if armed:
            def _overrun(signum, frame):
                raise CaseTimeout(f"one case still running after {CASE_TIME_LIMIT} s")

            old_handler = signal.signal(signal.SIGALRM, _overrun)
            signal.setitimer(signal.ITIMER_REAL, CASE_TIME_LIMIT)
        try:
            try:
                info = self.check.run(_fresh_strings(case)) or {}
            finally:
                if armed:
                    signal.setitimer(signal.ITIMER_REAL, 0)
                    signal.signal(signal.SIGALRM, old_handler)
        except Violation as v:
            self._failed(case, v)
            return
        except HarnessError:
            raise
        except CaseTimeout as e:
            raise HarnessError(f"inconclusive: {e} (case: {canon(case)[:600]})")
        except Exception as e:  # noqa
            origin = exc_origin(e)
            if origin is None:
                # the check's own code raised: never a VIOLATION by itself; the search goes on so that a genuine
                # violation elsewhere is still found (run_shard turns this into a harness error if none is)
                res.oracle_crashes += 1
                if res.first_crash is None:
                    res.first_crash = (f"{type(e).__name__} outside praatio: {e}\n"
                                       + "".join(traceback.format_exception(type(e), e, e.__traceback__)))
                return
            v = Violation(
                f"exception:{type(e).__name__}@{origin}",
                f"{type(e).__name__}: {e}",
            )
            self._failed(case, v)
            return
        classes = info.get("classes", ())
        for c in classes:
            res.classes[c] = res.classes.get(c, 0) + 1
            if c not in res.class_samples and len(res.class_samples) < 24:
                if len(canon(case)) < 3000:
                    res.class_samples[c] = case
        if info.get("nontrivial"):
            if self.check.distinct_by_construction:
                res.nontrivial_count += 1
            else:
                res.nontrivial_digests.add(digest(case))
            if len(res.samples) < 3 and len(canon(case)) < 3000:
                res.samples.append(case)

    def _failed(self, case, v: Violation) -> None:
        for fid, pred in self.known.items():
            try:
                hit = pred(self.check.name, case, v)
            except Exception as e:  # a broken predicate must not hide anything
                raise HarnessError(f"known-finding predicate {fid} crashed: {e!r}")
            if hit:
                self.res.excluded_known[fid] = self.res.excluded_known.get(fid, 0) + 1
                return
        self.last_fail = (case, v)
        raise v


def _shard_seed(seed: int, shard: int) -> int:
    return seed * 1000 + shard


def run_shard(mod_name: str, check_name: str, tier: str, seed: int, shard: int, nshards: int) -> ShardResult:
    """Executed in a worker process (or inline for the quick tier)."""
    t0 = time.time()
    try:
        from vlib import pio as _pio

        if nshards > 1:
            _pio._TMP = None  # forked workers must not share (and remove) the parent's scratch directory
        setup_repo_import()
        mod = __import__(f"props.{mod_name}", fromlist=["x"])
        check = next(c for c in mod.CHECKS if c.name == check_name)
        rec = _Recorder(mod, check)
        _NOTE.clear()
        if check.kind == "enum":
            _run_enum(rec, tier, shard, nshards)
        else:
            _run_gen(rec, tier, seed, shard, nshards)
        rec.res.accepted_exceptions = dict(_NOTE)
        rec.res.wall_s = time.time() - t0
        if rec.res.first_crash is not None:
            rec.res.harness_error = f"error in the check's own code on {rec.res.oracle_crashes} case(s); first one:\n" + rec.res.first_crash
        return rec.res
    except HarnessError as e:
        r = ShardResult(check=check_name)
        r.harness_error = str(e)
        return r
    except Exception as e:  # noqa
        r = ShardResult(check=check_name)
        r.harness_error = "".join(traceback.format_exception(type(e), e, e.__traceback__))
        return r
    finally:
        from vlib import pio

        pio.cleanup()


def run_fuzz_campaign(mod_name: str, check_name: str, runs: int, seed: int, idx: int) -> ShardResult:
    """One atheris/libFuzzer campaign in a subprocess (vlib/fuzz.py); its counters come back as a ShardResult."""
    import shutil
    import subprocess
    import tempfile

    r = ShardResult(check=check_name + "@atheris")
    t0 = time.time()
    base = tempfile.mkdtemp(prefix="praatio-verif-fuzz-", dir=os.environ.get("TMPDIR") or "/var/tmp")
    out = os.path.join(base, "out.json")
    env = dict(os.environ)
    env["TMPDIR"] = base
    env["PYTHONPATH"] = os.path.join(VERIF_DIR, ".deps") + os.pathsep + env.get("PYTHONPATH", "")
    try:
        p = subprocess.run(
            [sys.executable, "-m", "vlib.fuzz", mod_name.upper(), check_name, str(runs), str(seed * 100 + idx + 1), out],
            cwd=VERIF_DIR, env=env, stdout=subprocess.PIPE, stderr=subprocess.STDOUT, timeout=3 * 3600,
        )
        if not os.path.exists(out):
            r.harness_error = "atheris campaign produced no result: " + p.stdout.decode("utf-8", "replace")[-1500:]
            return r
        with open(out) as fd:
            body = json.load(fd)
        r.evaluations = body["evaluations"]
        r.nontrivial_count = body["nontrivial"]
        r.classes = body["classes"]
        r.excluded_known = body["excluded_known"]
        if body["violation"]:
            v = body["violation"]
            v["check"] = check_name
            r.violations.append(v)
        elif p.returncode not in (0,):
            # libFuzzer exits non-zero only on a crash of the target
            r.harness_error = f"atheris exited {p.returncode}: " + p.stdout.decode("utf-8", "replace")[-1500:]
        r.wall_s = time.time() - t0
        return r
    finally:
        shutil.rmtree(base, ignore_errors=True)


def _run_enum(rec: _Recorder, tier: str, shard: int, nshards: int) -> None:
    seen_buckets = set()
    for case in rec.check.enum(tier, shard, nshards):
        rec.res.space_size += 1
        try:
            rec.evaluate(case)
        except Violation as v:
            # enumeration continues; one violation per bucket (clause)
            if v.clause not in seen_buckets:
                seen_buckets.add(v.clause)
                rec.res.violations.append(
                    {"check": rec.check.name, "clause": v.clause, "message": v.message, "case": _shrink_enum(rec, case, v)}
                )
            if len(seen_buckets) >= 5:
                break


def _shrink_enum(rec, case, v):
    return case


def _run_gen(rec: _Recorder, tier: str, seed: int, shard: int, nshards: int) -> None:
    import hypothesis
    from hypothesis import HealthCheck, Phase, given, settings

    check = rec.check
    n = check.quick_n if tier == "quick" else check.thorough_n
    n = int(n * float(os.environ.get("VERIF_SCALE", "1")))
    n = max(n, 1)
    phases = [Phase.generate, Phase.shrink]
    if os.environ.get("VERIF_NO_SHRINK"):
        phases = [Phase.generate]
    excluded_clauses: List[str] = []
    max_rounds = 1 if tier == "quick" else 4
    for _round in range(max_rounds):
        strat = check.strategy(tier)

        @hypothesis.seed(_shard_seed(seed, shard) + 7919 * _round)
        @settings(
            max_examples=n,
            database=None,
            deadline=None,
            derandomize=False,
            report_multiple_bugs=False,
            phases=phases,
            suppress_health_check=list(HealthCheck),
            print_blob=False,
        )
        @given(strat)
        def test(case):
            try:
                rec.evaluate(case)
            except Violation as v:
                if v.clause in excluded_clauses:
                    rec.res.excluded_known["(bucket already reported) " + v.clause] = (
                        rec.res.excluded_known.get("(bucket already reported) " + v.clause, 0) + 1
                    )
                    return
                raise

        rec.last_fail = None
        try:
            test()
            return
        except Violation as v:
            case = rec.last_fail[0] if rec.last_fail else None
            rec.res.violations.append(
                {"check": check.name, "clause": v.clause, "message": v.message, "case": case}
            )
            excluded_clauses.append(v.clause)
        except HarnessError:
            raise
        except BaseException as e:  # hypothesis internal errors (Flaky, ...) are harness errors
            if isinstance(e, (KeyboardInterrupt, SystemExit)):
                raise
            if type(e).__name__ in ("FlakyFailure", "Flaky", "FlakyReplay") and rec.last_fail is not None:
                # A violation was observed, but the same case passed when Hypothesis ran it again: the outcome depends on
                # what the library was asked to do earlier in this process (state it keeps between calls). The observation
                # stands; the replay file alone may not reproduce it.
                case, v = rec.last_fail
                rec.res.violations.append(
                    {"check": check.name, "clause": v.clause,
                     "message": v.message + " [not reproducible from this case alone: the library's answer depends on earlier calls in the same process]",
                     "case": case}
                )
                return
            raise HarnessError(
                "hypothesis/harness failure: "
                + "".join(traceback.format_exception(type(e), e, e.__traceback__))
            )


# --------------------------------------------------------------------------
# ledger / replay tier


def load_ledger() -> List[dict]:
    p = os.path.join(VERIF_DIR, "known_findings.json")
    if not os.path.exists(p):
        return []
    with open(p) as fd:
        return json.load(fd)["findings"]


def run_single_case(mod, check_name: str, case: dict) -> Optional[Violation]:
    """Run one stored case directly (no Hypothesis); None if it passes."""
    check = next((c for c in mod.CHECKS if c.name == check_name), None)
    if check is None:
        raise HarnessError(f"unknown check {check_name} in {mod.__name__}")
    try:
        check.run(case)
        return None
    except Violation as v:
        return v
    except HarnessError:
        raise
    except Exception as e:  # noqa
        origin = exc_origin(e)
        if origin is None:
            raise HarnessError(
                "".join(traceback.format_exception(type(e), e, e.__traceback__))
            )
        return Violation(f"exception:{type(e).__name__}@{origin}", f"{type(e).__name__}: {e}")


def replay_tier(mod, prop: str, out: List[str]) -> Dict[str, Any]:
    """Run regress/<prop>-*.json; returns counters and collects violations."""
    rdir = os.path.join(VERIF_DIR, "regress")
    stats = {"replayed": 0, "known_still_failing": [], "violations": []}
    known_preds = getattr(mod, "KNOWN", {})
    ledger = {f["id"]: f for f in load_ledger() if f["property"] == prop}
    for fn in sorted(os.listdir(rdir)) if os.path.isdir(rdir) else []:
        if not (fn.startswith(prop + "-") and fn.endswith(".json")):
            continue
        with open(os.path.join(rdir, fn)) as fd:
            rec = json.load(fd)
        stats["replayed"] += 1
        v = run_single_case(mod, rec["check"], rec["case"])
        if v is None:
            continue
        # a stored case may (also) run into a finding that the ledger lists as known
        hit = None
        for kid, pred in known_preds.items():
            if ledger.get(kid, {}).get("status") == "known" and pred(rec["check"], rec["case"], v):
                hit = kid
                break
        if hit is not None:
            if hit not in stats["known_still_failing"]:
                stats["known_still_failing"].append(hit)
        else:
            stats["violations"].append(
                {"check": rec["check"], "clause": v.clause, "message": v.message, "case": rec["case"], "from": fn}
            )
    return stats


# --------------------------------------------------------------------------
# main


def write_replay(prop: str, viol: dict, seed: int) -> str:
    rdir = os.path.join(VERIF_DIR, "replays")
    os.makedirs(rdir, exist_ok=True)
    body = {
        "property": prop,
        "check": viol["check"],
        "clause": viol["clause"],
        "message": viol["message"],
        "seed": seed,
        "case": viol["case"],
    }
    h = hashlib.sha1(canon(body["case"]).encode() + viol["check"].encode()).hexdigest()[:8]
    path = os.path.join(rdir, f"{prop}-{viol['check']}-{h}.json")
    with open(path, "w") as fd:
        json.dump(body, fd, indent=1, sort_keys=True)
    return path


def main(argv: List[str]) -> int:
    import argparse

    ap = argparse.ArgumentParser()
    ap.add_argument("prop")
    ap.add_argument("tier", nargs="?", default=os.environ.get("VERIF_TIER", "quick"), choices=["quick", "thorough"])
    ap.add_argument("--replay")
    ap.add_argument("--only", help="comma separated check names")
    ap.add_argument("--jobs", type=int, default=int(os.environ.get("VERIF_JOBS", "16")))
    ap.add_argument("--no-evidence", action="store_true")
    args = ap.parse_args(argv)

    prop = args.prop.upper()
    mod_name = prop.lower()
    seed = int(os.environ.get("VERIF_SEED", "1"))
    t0 = time.time()
    sys.path.insert(0, VERIF_DIR)
    try:
        setup_repo_import()
        mod = __import__(f"props.{mod_name}", fromlist=["x"])
    except Exception as e:  # noqa
        print("HARNESS-ERROR:", "".join(traceback.format_exception(type(e), e, e.__traceback__)))
        return 2

    if args.replay:
        with open(args.replay) as fd:
            rec = json.load(fd)
        try:
            v = run_single_case(mod, rec["check"], rec["case"])
        except HarnessError as e:
            print("HARNESS-ERROR:", e)
            return 2
        if v is None:
            print(f"replay passes: property={prop} check={rec['check']}")
            return 0
        print(f"replay fails: {v.clause}: {v.message}")
        print(f"VIOLATION property={prop} replay={args.replay}")
        return 1

    try:
        if hasattr(mod, "selftest"):
            mod.selftest()
    except Exception as e:  # noqa
        print("HARNESS-ERROR: selftest failed:", "".join(traceback.format_exception(type(e), e, e.__traceback__)))
        return 2

    tier = args.tier
    checks = [c for c in mod.CHECKS if not (c.thorough_only and tier == "quick")]
    if args.only:
        want = set(args.only.split(","))
        checks = [c for c in checks if c.name in want]

    violations: List[dict] = []
    try:
        rstats = replay_tier(mod, prop, [])
    except HarnessError as e:
        print("HARNESS-ERROR:", e)
        return 2
    violations.extend(rstats["violations"])

    jobs = []  # (check, shard, nshards)
    for c in checks:
        ns = 1 if tier == "quick" else args.jobs
        for s in range(ns):
            jobs.append((c, s, ns))

    results: List[ShardResult] = []
    if tier == "quick" or args.jobs <= 1:
        for c, s, ns in jobs:
            results.append(run_shard(mod_name, c.name, tier, seed, s, ns))
    else:
        import multiprocessing as mp

        ctx = mp.get_context("fork")
        with ctx.Pool(args.jobs, maxtasksperchild=1) as pool:
            asyncs = [
                pool.apply_async(run_shard, (mod_name, c.name, tier, seed, s, ns))
                for c, s, ns in jobs
            ]
            for c in checks:
                if c.fuzz_runs and os.path.isdir(os.path.join(VERIF_DIR, ".deps", "atheris")):
                    for i in range(4):
                        asyncs.append(pool.apply_async(run_fuzz_campaign, (mod_name, c.name, c.fuzz_runs, seed, i)))
            for a in asyncs:
                results.append(a.get())

    herrs = [r for r in results if r.harness_error]
    if herrs:
        for r in herrs:
            print(f"HARNESS-ERROR in {r.check}:\n{r.harness_error}")
        if not any(r.violations for r in results):
            return 2
        # a violation found elsewhere stands on its own: report it (exit 1); the harness errors are printed above

    # merge
    per_check: Dict[str, dict] = {}
    total_eval = 0
    nontrivial = 0
    classes: Dict[str, int] = {}
    excluded: Dict[str, int] = {}
    accepted: Dict[str, int] = {}
    samples: List[Any] = []
    class_samples: Dict[str, Any] = {}
    exhaustive_checks = []
    merged = list(checks)
    for c in checks:
        if any(r.check == c.name + "@atheris" for r in results):
            merged.append(Check(c.name + "@atheris", c.run, kind="atheris", distinct_by_construction=True,
                                doc="coverage-guided libFuzzer campaigns over the same strategy (Hypothesis fuzz_one_input), 4 seeds"))
    for c in merged:
        rs = [r for r in results if r.check == c.name]
        digs = set()
        for r in rs:
            digs |= r.nontrivial_digests
        ev = sum(r.evaluations for r in rs)
        nt = len(digs) + sum(r.nontrivial_count for r in rs)
        total_eval += ev
        nontrivial += nt
        cc: Dict[str, int] = {}
        for r in rs:
            for k, v in r.classes.items():
                cc[k] = cc.get(k, 0) + v
                classes[f"{c.name}:{k}"] = classes.get(f"{c.name}:{k}", 0) + v
            for k, v in r.excluded_known.items():
                excluded[k] = excluded.get(k, 0) + v
            for k, v in r.accepted_exceptions.items():
                accepted[k] = accepted.get(k, 0) + v
            for k, v in r.class_samples.items():
                class_samples.setdefault(f"{c.name}:{k}", v)
            violations.extend(r.violations)
        for r in rs[:1]:
            samples.extend({"check": c.name, "case": s} for s in r.samples[:2])
        per_check[c.name] = {
            "kind": c.kind,
            "evaluations": ev,
            "distinct_nontrivial": nt,
            "exhaustive": bool(c.exhaustive),
            "space_size": sum(r.space_size for r in rs) if c.kind == "enum" else None,
            "campaigns": len(rs) if c.kind == "atheris" else None,
            "wall_s": round(max((r.wall_s for r in rs), default=0.0), 2),
            "doc": c.doc,
        }
        if c.exhaustive:
            exhaustive_checks.append(c.name)

    # required classes
    missing = [rc for rc in getattr(mod, "REQUIRED_CLASSES", []) if classes.get(rc, 0) == 0
               and any(rc.startswith(c.name + ":") for c in checks)]

    # dedupe violations by (check, clause)
    seen = set()
    uniq = []
    for v in violations:
        key = (v["check"], v["clause"])
        if key in seen:
            continue
        seen.add(key)
        uniq.append(v)

    # known findings still present
    ledger = [f for f in load_ledger() if f["property"] == prop and f["status"] == "known"]
    for f in ledger:
        if f["id"] in rstats["known_still_failing"]:
            print(f"KNOWN-FINDING: property={prop} {f['what']} [{f['id']}; generated cases excluded: {excluded.get(f['id'], 0)}]")

    out_lines = []
    for v in uniq:
        path = write_replay(prop, v, seed)
        out_lines.append(f"VIOLATION property={prop} replay={path}")
        print(f"  check={v['check']} clause={v['clause']}: {v['message'][:400]}")
    for l in out_lines:
        print(l)

    wall = time.time() - t0
    if not args.no_evidence:
        some_samples = samples[:6] + [
            {"check": k.split(":")[0], "class": k.split(":", 1)[1], "case": v}
            for k, v in list(class_samples.items())[:10]
        ]
        ev = {
            "property_id": prop,
            "tier": tier,
            "seed": seed,
            "level": "exploration",
            "coverage": {
                "evaluations": total_eval,
                "distinct_nontrivial": nontrivial,
                "rule": mod.RULE,
                "samples": some_samples,
                "exhaustive": False,
                "exhaustive_subchecks": exhaustive_checks,
                "per_check": per_check,
                "classes": dict(sorted(classes.items())),
                "excluded_known": excluded,
                "exceptions_accepted": accepted,
                "replay_tier_cases": rstats["replayed"],
                "known_findings_still_present": rstats["known_still_failing"],
                "missing_required_classes": missing,
            },
            "assumptions": list(getattr(mod, "ASSUMPTIONS", [])),
            "wall_s": round(wall, 2),
            "violations": len(uniq),
        }
        os.makedirs(os.path.join(VERIF_DIR, "evidence"), exist_ok=True)
        with open(os.path.join(VERIF_DIR, "evidence", f"{prop}.json"), "w") as fd:
            json.dump(ev, fd, indent=1, sort_keys=True, ensure_ascii=True)

    print(
        f"{prop} {tier} seed={seed}: evaluations={total_eval} distinct_nontrivial={nontrivial} "
        f"violations={len(uniq)} excluded_known={sum(excluded.values())} wall={wall:.1f}s"
    )
    if uniq:
        return 1
    if missing:
        print(f"HARNESS-ERROR: required classes never generated: {missing}")
        return 2
    return 0


if __name__ == "__main__":
    sys.exit(main(sys.argv[1:]))
