"""Independent writers for KlattGrid and point-object files (Praat layout, as
in the repository's fixtures and Praat's text-file conventions) and exact
snapshots of the praatio objects."""
from __future__ import annotations

from typing import Any, Dict, List

NULL_TIERS = ["phonation", "vocalTract", "coupling", "frication"]


def num(x) -> str:
    x = float(x)
    if x.is_integer() and abs(x) < 1e15:
        return str(int(x))
    return repr(x)


def skeleton(n_oral: int, n_fric: int) -> List[Dict[str, Any]]:
    """Section skeleton of a KlattGrid as Praat writes it (order as in the fixture)."""
    P = lambda name: {"kind": "points", "name": name, "points": []}
    N = lambda name: {"kind": "null", "name": name}
    G = lambda name, n: {"name": name, "tiers": [[] for _ in range(n)]}
    C = lambda name, groups: {"kind": "container", "name": name, "groups": groups}
    return [
        N("phonation"), P("pitch"), P("flutter"), P("voicingAmplitude"), P("doublePulsing"), P("openPhase"),
        P("collisionPhase"), P("power1"), P("power2"), P("spectralTilt"), P("aspirationAmplitude"), P("breathinessAmplitude"),
        N("vocalTract"),
        C("oral_formants", [G("formants", n_oral), G("bandwidths", n_oral)]),
        C("nasal_formants", [G("formants", 1), G("bandwidths", 1)]),
        C("nasal_antiformants", [G("formants", 1), G("bandwidths", 1), G("oral_formants_amplitudes", n_oral), G("nasal_formants_amplitudes", 1)]),
        N("coupling"),
        C("tracheal_formants", [G("formants", 1), G("bandwidths", 1)]),
        C("tracheal_antiformants", [G("formants", 1), G("bandwidths", 1), G("tracheal_formants_amplitudes", 1)]),
        C("delta_formants", [G("formants", 1), G("bandwidths", 1)]),
        N("frication"), P("fricationAmplitude"),
        C("frication_formants", [G("formants", n_fric), G("bandwidths", n_fric), G("frication_formants_amplitudes", n_fric)]),
        P("bypass"), P("gain"),
    ]


def write_klattgrid(kg: Dict[str, Any], trailing_blank: bool = True) -> str:
    b = " " if trailing_blank else ""
    lo, hi = num(kg["xmin"]), num(kg["xmax"])
    out = ['File type = "ooTextFile"', 'Object class = "KlattGrid"', "", f"xmin = {lo}{b}", f"xmax = {hi}{b}"]
    for s in kg["sections"]:
        out += [f"{s['name']}? <exists>{b}", f"xmin = {lo}{b}", f"xmax = {hi}{b}"]
        if s["kind"] == "points":
            out.append(f"points: size = {len(s['points'])}{b}")
            for i, (t, v) in enumerate(s["points"], 1):
                out += [f"points [{i}]:", f"    number = {num(t)}{b}", f"    value = {num(v)}{b}"]
        elif s["kind"] == "container":
            for g in s["groups"]:
                out.append(f"{g['name']}: size = {len(g['tiers'])}{b}")
                for j, pts in enumerate(g["tiers"], 1):
                    out += [f"{g['name']} [{j}]:", f"    xmin = {lo}{b}", f"    xmax = {hi}{b}", f"    points: size = {len(pts)}{b}"]
                    for i, (t, v) in enumerate(pts, 1):
                        out += [f"    points [{i}]:", f"        number = {num(t)}{b}", f"        value = {num(v)}{b}"]
    return "\n".join(out) + "\n"


def snapshot(kg) -> Dict[str, Any]:
    """Exact observable content of a praatio Klattgrid."""
    from praatio.data_classes import klattgrid as kgm

    secs = []
    for name in kg.tierNames:
        t = kg.getTier(name)
        if isinstance(t, kgm.KlattContainerTier):
            groups = []
            for gname in t.tierNameList:
                g = t.tierDict[gname]
                tiers = []
                for sname in g.tierNameList:
                    st = g.tierDict[sname]
                    tiers.append({"name": sname, "span": [float(st.minTimestamp), float(st.maxTimestamp)],
                                  "points": [[float(a), float(b)] for a, b in st.entries]})
                groups.append({"name": gname, "tiers": tiers})
            secs.append({"kind": "container", "name": name, "groups": groups})
        else:
            secs.append({"kind": "points", "name": name, "span": [float(t.minTimestamp), float(t.maxTimestamp)],
                         "points": [[float(a), float(b)] for a, b in t.entries]})
    return {"xmin": float(kg.minTimestamp), "xmax": float(kg.maxTimestamp), "sections": secs}


def expected_snapshot(kg: Dict[str, Any]) -> Dict[str, Any]:
    lo, hi = float(kg["xmin"]), float(kg["xmax"])
    secs = []
    for s in kg["sections"]:
        if s["kind"] == "container":
            groups = []
            for g in s["groups"]:
                tiers = [{"name": f"{g['name']} [{j}]", "span": [lo, hi], "points": [[float(a), float(b)] for a, b in pts]}
                         for j, pts in enumerate(g["tiers"], 1)]
                groups.append({"name": g["name"], "tiers": tiers})
            secs.append({"kind": "container", "name": s["name"], "groups": groups})
        else:
            secs.append({"kind": "points", "name": s["name"], "span": [lo, hi],
                         "points": [[float(a), float(b)] for a, b in s.get("points", [])]})
    return {"xmin": lo, "xmax": hi, "sections": secs}


# ------------------------------------------------------------ point objects


def write_point_object(cls: str, xmin, xmax, points, long: bool) -> str:
    head = ['File type = "ooTextFile"', f'Object class = "{cls}"', ""]
    if not long:
        out = head + [num(xmin), num(xmax), str(len(points))]
        for p in points:
            out += [num(x) for x in p]
        return "\n".join(out) + "\n"
    out = head + [f"xmin = {num(xmin)} ", f"xmax = {num(xmax)} "]
    if cls == "PointProcess":
        out += [f"nt = {len(points)} ", "t []: "]
        for i, (t,) in enumerate(points, 1):
            out.append(f"    t [{i}] = {num(t)} ")
    else:
        out.append(f"points: size = {len(points)} ")
        for i, (t, v) in enumerate(points, 1):
            out += [f"points [{i}]:", f"    number = {num(t)} ", f"    value = {num(v)} "]
    return "\n".join(out) + "\n"
