"""Shared pieces of the TextGrid I/O properties (C01-C04)."""
from __future__ import annotations

import os
from typing import Any, Dict, List

from vlib.pio import P, mk_tg, quiet, tmpdir
from vlib.run import Violation

FORMATS = ["short_textgrid", "long_textgrid", "json", "textgrid_json"]
CLS = {"interval": "IntervalTier", "point": "TextTier"}


def spec_to_data(spec) -> Dict[str, Any]:
    return {"xmin": spec["minT"], "xmax": spec["maxT"],
            "tiers": [{"class": CLS[t["type"]], "name": t["name"], "xmin": t["minT"], "xmax": t["maxT"],
                       "entries": [list(e) for e in t["entries"]]} for t in spec["tiers"]]}


def tg_to_data(tg) -> Dict[str, Any]:
    p = P()
    tiers = []
    for t in tg.tiers:
        cls = "IntervalTier" if isinstance(t, p.IntervalTier) else "TextTier"
        tiers.append({"class": cls, "name": t.name, "xmin": t.minTimestamp, "xmax": t.maxTimestamp,
                      "entries": [list(e) for e in t.entries]})
    return {"xmin": tg.minTimestamp, "xmax": tg.maxTimestamp, "tiers": tiers}


def num_rel(t, t2) -> bool:
    """C01: bit-identical, or t2 is an integer within 1e-14 (relative) of t."""
    if t == t2:
        return True
    t, t2 = float(t), float(t2)
    return t2.is_integer() and abs(t - t2) <= 1e-14 * max(abs(t), abs(t2))


def fill_blanks(entries: List[list], lo, hi) -> List[list]:
    """Entries plus an empty-labelled interval for every unlabelled stretch of [lo, hi]."""
    out = []
    cur = lo
    for s, e, l in entries:
        if s > cur:
            out.append([cur, s, ""])
        out.append([s, e, l])
        cur = e
    if cur < hi:
        out.append([cur, hi, ""])
    return out


def compare_data(got, want, what, json_single_span=False, check_tier_spans=True, exact=False):
    """Names, order, types, spans, entries; numbers by the C01 relation (or exactly)."""
    rel = (lambda a, b: a == b) if exact else num_rel
    if [t["name"] for t in got["tiers"]] != [t["name"] for t in want["tiers"]]:
        raise Violation("names", f"{what}: tier names {[t['name'] for t in got['tiers']]!r} != {[t['name'] for t in want['tiers']]!r}")
    if not rel(want["xmin"], got["xmin"]) or not rel(want["xmax"], got["xmax"]):
        raise Violation("span", f"{what}: textgrid span [{got['xmin']!r},{got['xmax']!r}] != [{want['xmin']!r},{want['xmax']!r}]")
    for g, w in zip(got["tiers"], want["tiers"]):
        if g["class"] != w["class"]:
            raise Violation("tier-type", f"{what}: tier {w['name']!r} is {g['class']}, expected {w['class']}")
        if check_tier_spans:
            wmin, wmax = (want["xmin"], want["xmax"]) if json_single_span else (w["xmin"], w["xmax"])
            if not rel(wmin, g["xmin"]) or not rel(wmax, g["xmax"]):
                raise Violation("tier-span", f"{what}: tier {w['name']!r} span [{g['xmin']!r},{g['xmax']!r}] != [{wmin!r},{wmax!r}]")
        if len(g["entries"]) != len(w["entries"]):
            raise Violation("entry-count", f"{what}: tier {w['name']!r} has {len(g['entries'])} entries {g['entries']!r}, expected {len(w['entries'])}: {w['entries']!r}")
        for ge, we in zip(g["entries"], w["entries"]):
            if ge[-1] != we[-1]:
                raise Violation("label", f"{what}: tier {w['name']!r}: label {ge[-1]!r} != {we[-1]!r}")
            for a, b in zip(we[:-1], ge[:-1]):
                if not rel(a, b):
                    raise Violation("timestamp", f"{what}: tier {w['name']!r}: {ge!r} != {we!r}")


_COUNTER = [0]


def _path(ext):
    _COUNTER[0] += 1
    return os.path.join(tmpdir(), f"io{_COUNTER[0] % 8}{ext}")


def save_text(tg, fmt, blanks, **kw) -> str:
    """Textgrid.save -> the file's text (utf-8)."""
    fn = _path(".TextGrid")
    with quiet():
        tg.save(fn, fmt, blanks, **kw)
    with open(fn, "rb") as fd:
        raw = fd.read()
    return raw.decode("utf-8")


def open_bytes(raw: bytes, include_empty: bool, dup_mode: str = "error"):
    p = P()
    fn = _path(".TextGrid")
    with open(fn, "wb") as fd:
        fd.write(raw)
    with quiet():
        return p.textgrid.openTextgrid(fn, include_empty, "silence", dup_mode)


def interesting_text(s: str) -> bool:
    return any(c in s for c in '"\n=') or any(ch.isdigit() for ch in s) or any(ord(ch) > 127 for ch in s)


# ------------------------------------------------------ known reader confusion
import re as _re


def reader_confusion(data, layout: str):
    """Which structural tokens of praatio's TextGrid readers occur inside a
    name or label of `data` when it is encoded in `layout`
    ('short' | 'long' | 'elan').  Signature of the known finding
    'keyword inside a name/label derails the regex/offset based readers'.
    Returns a sorted list of token tags (empty = not affected)."""
    hits = set()
    for t in data["tiers"]:
        texts = [t["name"]] + [e[-1] for e in t["entries"]]
        for s in texts:
            esc = '"' + s.replace('"', '""') + '"'
            if layout == "short":
                if "item [" in s:
                    hits.add("short:item [ (dispatched to the long parser)")
                if '"IntervalTier"' in esc or '"TextTier"' in esc:
                    hits.add('short:"IntervalTier"/"TextTier" (taken for a tier start)')
            else:
                if "ooTextFile short" in s:
                    hits.add("long:ooTextFile short (dispatched to the short parser)")
                if _re.search(r"item ?\[", s):
                    hits.add("long:item [ (tier split)")
                word = r"intervals ?\[" if t["class"] == "IntervalTier" else r"points ?\["
                if _re.search(word, s):
                    hits.add("long:intervals [/points [ (entry split)")
    return sorted(hits)
