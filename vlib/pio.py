"""Adapters between JSON case specs and praatio objects; exact snapshots."""
from __future__ import annotations

import contextlib
import io
import os
import shutil
import tempfile
from typing import Any, Dict, List


def P():
    """The praatio modules, imported lazily from the tree under test."""
    import praatio  # noqa
    from praatio import textgrid as tgmod
    from praatio.utilities import constants, errors, utils, textgrid_io

    class NS:
        pass

    ns = NS()
    ns.textgrid = tgmod
    ns.IntervalTier = tgmod.IntervalTier
    ns.PointTier = tgmod.PointTier
    ns.Textgrid = tgmod.Textgrid
    ns.Interval = constants.Interval
    ns.Point = constants.Point
    ns.errors = errors
    ns.utils = utils
    ns.constants = constants
    ns.textgrid_io = textgrid_io
    return ns


def mk_tier(spec: Dict[str, Any]):
    p = P()
    if spec["type"] == "interval":
        ents = [p.Interval(float(s), float(e), l) for s, e, l in spec["entries"]]
        return p.IntervalTier(spec["name"], ents, spec.get("minT"), spec.get("maxT"))
    ents = [p.Point(float(t), l) for t, l in spec["entries"]]
    return p.PointTier(spec["name"], ents, spec.get("minT"), spec.get("maxT"))


def mk_tg(spec: Dict[str, Any]):
    p = P()
    tg = p.Textgrid(spec.get("minT"), spec.get("maxT"))
    for t in spec["tiers"]:
        with quiet():
            tg.addTier(mk_tier(t), reportingMode="silence")
    return tg


def snap_tier(tier) -> Dict[str, Any]:
    """Exact observable state of a tier (no tolerance)."""
    p = P()
    typ = "interval" if isinstance(tier, p.IntervalTier) else "point"
    ents: List[list] = []
    for e in tier.entries:
        ents.append([x for x in e])
    return {
        "type": typ,
        "name": tier.name,
        "minT": tier.minTimestamp,
        "maxT": tier.maxTimestamp,
        "entries": ents,
        "entry_types": sorted({type(e).__name__ for e in tier.entries}),
    }


def snap_tg(tg) -> Dict[str, Any]:
    return {
        "minT": tg.minTimestamp,
        "maxT": tg.maxTimestamp,
        "names": list(tg.tierNames),
        "tiers": [snap_tier(t) for t in tg.tiers],
    }


def same(a, b) -> bool:
    """Exact equality of snapshots, distinguishing 1 from 1.0? No: numeric
    values compare by ==, but -0.0/0.0 and int/float are considered equal;
    bitwise differences between floats are caught by ==."""
    return a == b


@contextlib.contextmanager
def quiet():
    """Capture stdout (the library reports warnings with print)."""
    buf = io.StringIO()
    with contextlib.redirect_stdout(buf):
        yield buf


_TMP = None


def tmpdir() -> str:
    """One scratch directory per process, outside /repo and /verif."""
    global _TMP
    if _TMP is None or not os.path.isdir(_TMP):
        base = os.environ.get("TMPDIR") or "/var/tmp"
        _TMP = tempfile.mkdtemp(prefix="praatio-verif-", dir=base)
        import atexit

        atexit.register(cleanup)
    return _TMP


def cleanup() -> None:
    global _TMP
    if _TMP is not None:
        shutil.rmtree(_TMP, ignore_errors=True)
        _TMP = None


def fresh(s):
    """An equal but distinct str object (as read from a config file or the command line, not a source literal):
    option values are compared by value."""
    return "".join(list(s)) if isinstance(s, str) and len(s) > 1 else s
