"""Reference models written from the property statements (exact rationals)
and comparison helpers shared by several properties."""
from __future__ import annotations

from fractions import Fraction
from typing import List, Sequence, Tuple

from vlib import gen
from vlib.run import Violation


def num_type(style):
    """float arithmetic is exact on the dyadic grid; otherwise exact rationals."""
    return float if style == "grid" else Fraction


# ------------------------------------------------------------------ compare


def fmt(entries):
    return [[float(x) if not isinstance(x, str) else x for x in en] for en in entries]


def cmp_num(got, exact, exact_required, ops, what, k=4):
    if exact_required:
        if got != exact:
            raise Violation("timestamp-changed", f"{what}: got {got!r}, expected {float(exact)!r}")
    elif not gen.close(got, exact, *ops, k=k):
        raise Violation("timestamp-off", f"{what}: got {got!r}, expected {float(exact)!r}")


def compare_entries(got: Sequence[Sequence], want: Sequence[Sequence], exact: bool, ops, what="entries", k=4):
    """got: snapshot entries; want: model entries (numbers may be Fractions)."""
    if len(got) != len(want):
        raise Violation("entry-set", f"{what}: got {fmt(got)}, expected {fmt(want)}")
    for g, w in zip(got, want):
        if g[-1] != w[-1]:
            raise Violation("label", f"{what}: got {fmt(got)}, expected {fmt(want)}")
    for g, w in zip(got, want):
        for i in range(len(w) - 1):
            cmp_num(g[i], w[i], exact, ops, f"{what}: got {fmt(got)}, expected {fmt(want)}; field {i} of {list(g)}", k=k)


def check_wellformed(snap, what="result"):
    """Sorted, start<end, non-overlapping, inside span, trimmed labels."""
    ents = snap["entries"]
    if snap["type"] == "interval":
        prev_end = None
        for s, e, l in ents:
            if not s < e:
                raise Violation("ill-formed", f"{what}: interval with start>=end {[s, e, l]}")
            if prev_end is not None and s < prev_end:
                raise Violation("ill-formed", f"{what}: overlapping/unsorted intervals in {ents}")
            prev_end = e
            if s < snap["minT"] or e > snap["maxT"]:
                raise Violation("ill-formed", f"{what}: {[s, e, l]} outside span [{snap['minT']}, {snap['maxT']}]")
            if l != l.strip():
                raise Violation("ill-formed", f"{what}: untrimmed label {l!r}")
    else:
        prev = None
        for t, l in ents:
            if prev is not None and t < prev:
                raise Violation("ill-formed", f"{what}: unsorted points in {ents}")
            prev = t
            if t < snap["minT"] or t > snap["maxT"]:
                raise Violation("ill-formed", f"{what}: point {[t, l]} outside span [{snap['minT']}, {snap['maxT']}]")
            if l != l.strip():
                raise Violation("ill-formed", f"{what}: untrimmed label {l!r}")


# -------------------------------------------------------------- eraseRegion


def erase_interval(entries, a, b, mode, shrink, maxT, N=Fraction):
    """-> ('ok', entries, maxT) | ('collision',)  per the C07 statement."""
    a_, b_ = N(a), N(b)
    d = b_ - a_
    over = [(N(s), N(e), l) for s, e, l in entries if N(e) > a_ and N(s) < b_]
    if over and mode == "error":
        return ("collision",)
    out = []
    straddled = False
    for s, e, l in entries:
        s_, e_ = N(s), N(e)
        if e_ <= a_:
            out.append((s_, e_, l))
        elif s_ >= b_:
            out.append((s_ - d, e_ - d, l) if shrink else (s_, e_, l))
        elif mode == "truncate":
            if s_ < a_ and e_ > b_ and shrink:
                out.append((s_, e_ - d, l))  # one interval shortened by b-a
                straddled = True
                continue
            if s_ < a_:
                out.append((s_, a_, l))
            if e_ > b_:
                out.append((b_ - d, e_ - d, l) if shrink else (b_, e_, l))
        # categorical: overlapping intervals vanish
    return ("ok", out, N(maxT) - d if shrink else N(maxT))


def erase_point(entries, a, b, shrink, maxT, N=Fraction):
    a_, b_ = N(a), N(b)
    d = b_ - a_
    out = []
    for t, l in entries:
        t_ = N(t)
        if t_ < a_:
            out.append((t_, l))
        elif t_ > b_:
            out.append((t_ - d, l) if shrink else (t_, l))
    return ("ok", out, N(maxT) - d if shrink else N(maxT))


# -------------------------------------------------------------- insertSpace


def insert_space_interval(entries, s, d, mode, maxT, N=Fraction):
    """-> ('ok', entries, maxT) | ('rejected',)"""
    s_, d_ = N(s), N(d)
    out = []
    for st_, en_, l in entries:
        a, b = N(st_), N(en_)
        if b <= s_:
            out.append((a, b, l))
        elif a >= s_:
            out.append((a + d_, b + d_, l))
        else:  # straddles s
            if mode == "stretch":
                out.append((a, b + d_, l))
            elif mode == "split":
                out.append((a, s_, l))
                out.append((s_ + d_, b + d_, l))
            elif mode == "no_change":
                out.append((a, b, l))
            else:
                return ("rejected",)
    return ("ok", out, N(maxT) + d_)


def insert_space_point(entries, s, d, maxT, N=Fraction):
    s_, d_ = N(s), N(d)
    out = [((N(t), l) if N(t) <= s_ else (N(t) + d_, l)) for t, l in entries]
    return ("ok", out, N(maxT) + d_)


# ----------------------------------------------------------- label function


def label_function(entries, tol=0):
    """Interval entries -> maximal runs [(start, end, label)]: adjacent
    same-labelled pieces whose gap is <= tol are merged."""
    out: List[list] = []
    for s, e, l in entries:
        if out and out[-1][2] == l and abs(Fraction(s) - Fraction(out[-1][1])) <= tol:
            out[-1][1] = e
        else:
            out.append([s, e, l])
    return out


# ------------------------------------------------------------- set algebra


def difference(A, B):
    """A, B: [(s,e,l)] sorted, non-overlapping -> A's labelled time not covered by B."""
    out = []
    for s, e, l in A:
        cur = s
        for bs, be, _ in B:
            if be <= cur or bs >= e:
                continue
            if bs > cur:
                out.append((cur, bs, l))
            cur = max(cur, be)
            if cur >= e:
                break
        if cur < e:
            out.append((cur, e, l))
    return out


def intersection(A, B, dem="-"):
    out = []
    for bs, be, bl in B:
        for s, e, l in A:
            lo, hi = max(s, bs), min(e, be)
            if lo < hi:
                out.append((lo, hi, f"{l}{dem}{bl}"))
    out.sort(key=lambda x: (x[0], x[1]))
    return out


def union_components(A, B):
    """Connected components of the positive-overlap relation between the
    entries of A and B -> [(start, end, [members sorted by start])], members
    are (start, end, label, side)."""
    items = [(s, e, l, "A") for s, e, l in A] + [(s, e, l, "B") for s, e, l in B]
    items.sort(key=lambda x: (x[0], x[1]))
    comps = []
    for it in items:
        if comps and it[0] < comps[-1][1]:  # overlaps the running component
            comps[-1][1] = max(comps[-1][1], it[1])
            comps[-1][2].append(it)
        else:
            comps.append([it[0], it[1], [it]])
    return comps


def union_label_options(members, dem="-"):
    """All labels allowed by 'joined in time order': members sorted by start;
    members with equal start may appear in either order."""
    groups = []
    for m in sorted(members, key=lambda x: x[0]):
        if groups and groups[-1][0][0] == m[0]:
            groups[-1].append(m)
        else:
            groups.append([m])
    import itertools

    opts = [[]]
    for g in groups:
        new = []
        for perm in itertools.permutations(g):
            for o in opts:
                new.append(o + [x[2] for x in perm])
        opts = new
    return {dem.join(o) for o in opts}


def merge_labels(A, B, dem=","):
    out = []
    for s, e, l in A:
        subs = [bl for bs, be, bl in B if be > s and bs < e]
        if subs:
            out.append((s, e, f"{l}({dem.join(subs)})"))
    return out


def covered_cells(entries, cuts):
    """Set of elementary segments (cuts[i], cuts[i+1]) covered by entries."""
    cov = set()
    for i in range(len(cuts) - 1):
        lo, hi = cuts[i], cuts[i + 1]
        for s, e, *_ in entries:
            if s <= lo and hi <= e:
                cov.add(i)
                break
    return cov


# ------------------------------------------------- stale-state pre-steps


def apply_pre(tier, spec, pre):
    """Optionally use the tier once (a query that may fill caches) and then edit it in place with
    deleteEntry; returns the spec describing the tier's current content."""
    if not pre:
        return spec
    from vlib.pio import quiet

    ents = list(tier.entries)
    try:
        with quiet():
            tier.timestamps
            if ents:
                lo, hi = ents[0][0], ents[-1][-2]
                if lo < hi:
                    tier.crop(lo, hi, "lax", False)
                    tier.eraseRegion(lo, hi, "truncate", False)
    except Exception:  # noqa - the warm-up is not what is being judged
        pass
    if pre.get("delete") is not None and ents:
        victim = ents[pre["delete"] % len(ents)]
        tier.deleteEntry(victim)
        new_entries = [list(e) for e in tier.entries]
        return dict(spec, entries=new_entries)
    return spec
