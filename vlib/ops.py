"""Tier operation histories: generation (op descriptors with selectors) and
interpretation, shared by C05 (well-formedness) and C13 (purity/atomicity)."""
from __future__ import annotations

from hypothesis import strategies as st

from vlib import gen
from vlib.pio import fresh, P, mk_tier, snap_tier, quiet

COPY_OPS = ["crop", "erase", "insert_space", "edit", "union", "difference", "intersection", "merge_labels",
            "append", "dejitter", "morph", "new"]
MUTATORS = ["insert_entry", "delete_entry"]


def lattice(style):
    if style == "grid":
        return st.integers(0, 64).map(lambda k: k / 8)
    return st.one_of(st.integers(0, 80).map(lambda k: float(f"{k}e-1")), gen.dec_time(max_int=8))


@st.composite
def raw_entries(draw, style, is_int):
    """Arbitrary constructor input: unsorted, untrimmed labels, possibly
    overlapping / inverted, times as float, int or numeric string."""
    lat = lattice(style)
    lab = st.sampled_from(["a", " a", "b ", "\tc\n", "", "  ", "x y", "a-b", "\u00a0a", "b\u2028", "\u3000c\x1c", "\x85"])  # str.strip() knows all of these
    n = draw(st.integers(0, 5))
    ents = []
    wellformed = draw(st.integers(0, 3)) > 0
    if is_int and draw(st.integers(0, 7)) == 0:
        # two intervals that overlap by one unit in the last place (0.1+0.2 style arithmetic)
        import math

        a, b, c = sorted(draw(st.lists(lat, min_size=3, max_size=3, unique=True)))
        ents = [[a, math.nextafter(b, math.inf), draw(lab)], [b, c, draw(lab)]]
        return ents, "float"
    if is_int:
        if wellformed:
            bs = sorted(draw(st.lists(lat, min_size=n + 1, max_size=n + 1, unique=True)))
            for i in range(len(bs) - 1):
                if draw(st.booleans()):
                    ents.append([bs[i], bs[i + 1], draw(lab)])
        else:
            for _ in range(n):
                ents.append([draw(lat), draw(lat), draw(lab)])
    else:
        for t in draw(st.lists(lat, min_size=n, max_size=n, unique=wellformed)):
            ents.append([t, draw(lab)])
    ents = draw(st.permutations(ents)) if ents else ents
    form = draw(st.sampled_from(["float", "float", "str", "int_if_possible"]))
    return [list(e) for e in ents], form


def _conv(x, form):
    if form == "str":
        return repr(x)
    if form == "int_if_possible" and float(x).is_integer():
        return int(x)
    return x


@st.composite
def op_strategy(draw, style):
    lat = lattice(style)
    kind = draw(st.sampled_from(
        ["construct", "crop", "erase", "insert_space", "edit", "insert_entry", "insert_entry", "delete_entry",
         "union", "difference", "intersection", "merge_labels", "append", "dejitter", "morph", "new"]))
    op = {"op": kind, "t": draw(st.integers(0, 5)), "u": draw(st.integers(0, 5))}
    if kind == "construct":
        is_int = draw(st.booleans())
        ents, form = draw(raw_entries(style, is_int))
        op.update(type="interval" if is_int else "point", entries=ents, form=form, wrap=draw(st.sampled_from(["list", "tuple", "obj", "obj"])),
                  minT=draw(st.one_of(st.none(), st.just(0.0), lat)), maxT=draw(st.one_of(st.none(), lat, st.just(10.0))))
        times = [x for e in ents for x in e[:-1]]
        if times and draw(st.integers(0, 5)) == 0:
            # a requested span that misses the outermost entry by one unit in the last place: the entry still has to fit
            import math
            if draw(st.booleans()):
                op["maxT"] = math.nextafter(max(times), -math.inf)
            elif min(times) > 0:
                op["minT"] = math.nextafter(min(times), math.inf)
    elif kind in ("crop", "erase"):
        a, b = draw(lat), draw(lat)
        if a > b and draw(st.integers(0, 7)) != 3:  # mostly proper windows; a>=b (rejected) now and then
            a, b = b, a
        if kind == "crop":
            op.update(a=a, b=b, mode=draw(st.sampled_from(["strict", "lax", "truncated"])), rebase=draw(st.booleans()))
        else:
            op.update(a=a, b=b, mode=draw(st.sampled_from(["truncate", "categorical", "error"])), shrink=draw(st.booleans()))
    elif kind == "insert_space":
        op.update(s=draw(lat), d=draw(st.one_of(lat, st.sampled_from([0.0, -0.5, -1.0, 0.3]))),
                  mode=draw(st.sampled_from(["stretch", "split", "no_change", "error"])))
    elif kind == "edit":
        op.update(offset=draw(st.one_of(lat, lat.map(lambda t: -t))), mode=draw(st.sampled_from(["silence", "warning", "error"])))
    elif kind == "insert_entry":
        op.update(a=draw(st.one_of(lat, lat, st.sampled_from([0.0, 0.125]))), b=draw(st.one_of(lat, lat, st.sampled_from([20.0, 40.0]))), label=draw(st.sampled_from(["n", " n ", "", "m\n", "x", "\u00a0n", "n\u2029", "\u3000"])),
                  mode=draw(st.sampled_from(["error", "error", "error", "replace", "merge", "merge", "replace", "bogus"])),
                  report=draw(st.sampled_from(["silence", "warning", "silence", "warning", "bogus", "error"])),  # 'error' is accepted by the option check although the signature documents silence|warning only
                  form=draw(st.sampled_from(["obj", "tuple", "list"])))
        op.update(near=draw(st.one_of(st.none(), st.none(), st.none(), st.integers(0, 7))), near_k=draw(st.integers(0, 5)))
    elif kind == "new":
        op.update(minT=draw(st.one_of(st.none(), st.none(), lat)), maxT=draw(st.one_of(st.none(), lat, lat)),
                  name=draw(st.sampled_from([None, "renamed"])), ulp_inside=draw(st.integers(0, 4)) == 0)
    elif kind == "delete_entry":
        op.update(sel=draw(st.integers(0, 7)), absent=draw(st.integers(0, 5)) == 0)
    elif kind == "dejitter":
        op.update(maxdiff=draw(st.sampled_from([0.001, 0.05, 0.125, 0.5, 1.0, 3.0])))
    elif kind == "morph":
        op.update(filter=draw(st.sampled_from([None, "a", "b"])))
    return op


@st.composite
def histories(draw, max_steps=12):
    style = draw(st.sampled_from(["grid", "dec", "dec"]))
    init = [draw(st.one_of(gen.interval_tier(style=style, label=gen.ABE, name="i0"),
                           gen.point_tier(style=style, label=gen.ABE, name="p0")))]
    if draw(st.booleans()):
        init.append(draw(gen.interval_tier(style=style, label=gen.ABE, name="i1")))
    for t in init:
        if t["entries"] and t["entries"][0][0] > 0 and draw(st.booleans()):
            t["minT"] = t["entries"][0][0]  # a tier whose span starts at its first entry, not at 0
    for t in init:
        if t["type"] == "interval" and style != "grid" and draw(st.integers(0, 5)) == 0:
            # a labelled interval of a few nanoseconds at the end: short, and as well-formed as any other
            b0 = max([e[1] for e in t["entries"]] + [t["minT"]]) + draw(st.sampled_from([0.0, 0.5]))
            if draw(st.booleans()):
                t["entries"] = t["entries"] + [[b0, b0 + 4e-9, "a"]]
                t["maxT"] = max(t["maxT"], b0 + 4e-9)
            else:
                # two of them side by side, closer to each other than the library's fuzzy entry equality
                w = max(b0, 1.0) * 3e-10
                t["entries"] = t["entries"] + [[b0, b0 + w, "a"], [b0 + w, b0 + 2 * w, "a"]]
                t["maxT"] = max(t["maxT"], b0 + 2 * w)
    if draw(st.integers(0, 9)) == 0:
        # a tier that is over at time 0 (one click at 0): appending to it shifts the other tier by nothing
        init.append({"type": "point", "name": "z0", "entries": [[0.0, "start"]], "minT": 0.0, "maxT": 0.0, "style": style})
    n = draw(st.integers(1, max_steps))
    return {"style": style, "init": init, "ops": [draw(op_strategy(style)) for _ in range(n)]}


class StepResult:
    def __init__(self):
        self.status = "ok"  # ok | praatio_error | other_error | skipped
        self.exc = None
        self.in_domain = True
        self.result = None  # new tier (copy-returning ops)
        self.receiver = None
        self.args = []  # other tier arguments
        self.mutator = False
        self.note = ""


def apply_op(tiers: list, op: dict) -> StepResult:
    """Apply op to the live tiers (mutators act in place; copy-returning ops
    append their result, keeping at most 4 live tiers)."""
    p = P()
    r = StepResult()
    kind = op["op"]
    T = tiers[op["t"] % len(tiers)]
    U = tiers[op["u"] % len(tiers)]
    r.receiver = T
    is_int = isinstance(T, p.IntervalTier)
    same_type = isinstance(U, type(T))

    def call(f):
        try:
            with quiet():
                return f()
        except p.errors.PraatioException as e:
            r.status, r.exc = "praatio_error", e
        except Exception as e:  # noqa
            r.status, r.exc = "other_error", e
        return None

    if kind == "construct":
        r.receiver = None
        ents = [[_conv(x, op["form"]) for x in e[:-1]] + [e[-1]] for e in op["entries"]]
        cls = p.IntervalTier if op["type"] == "interval" else p.PointTier
        if op.get("wrap") == "tuple":
            ents = [tuple(e) for e in ents]
        elif op.get("wrap") == "obj":  # the library's own entry types, as a caller copying entries between tiers passes them
            ents = [(p.Interval if op["type"] == "interval" else p.Point)(*e) for e in ents]
        if op["minT"] is not None and op["maxT"] is not None and op["minT"] > op["maxT"]:
            r.in_domain = False
        r.result = call(lambda: cls("c", ents, op["minT"], op["maxT"]))
    elif kind == "crop":
        r.result = call(lambda: T.crop(op["a"], op["b"], fresh(op["mode"]), op["rebase"]))
    elif kind == "erase":
        r.result = call(lambda: T.eraseRegion(op["a"], op["b"], fresh(op["mode"]), op["shrink"]))
    elif kind == "insert_space":
        if op["d"] <= 0:
            r.in_domain = False
        r.result = call(lambda: T.insertSpace(op["s"], op["d"], fresh(op["mode"])))
    elif kind == "edit":
        r.result = call(lambda: T.editTimestamps(op["offset"], op["mode"]))
    elif kind == "insert_entry":
        r.mutator = True
        if is_int:
            a, b = op["a"], op["b"]
            ents0 = list(T.entries)
            if op.get("near") is not None and len(ents0) >= 2:
                # starts one unit in the last place inside an existing interval's end and reaches into the next interval
                import math
                i0 = op["near"] % (len(ents0) - 1)
                a = math.nextafter(ents0[i0].end, -math.inf)
                b = (ents0[i0 + 1].start + ents0[i0 + 1].end) / 2
                if op.get("near_k", 0) % 2 == 1:
                    # exactly the extent of the last interval (collides with that one only)
                    a, b = ents0[-1].start, ents0[-1].end
            if a >= b:
                r.in_domain = False
            ent = (a, b, op["label"])
            obj = p.Interval(*ent)
        else:
            t_new = op["a"]
            ents0 = list(T.entries)
            if op.get("near") is not None and ents0:
                # a time that differs from an existing point's by less than the library's fuzzy equality
                base = ents0[op["near"] % len(ents0)].time
                cands = gen.near_values(base)
                if cands:
                    t_new = cands[op.get("near_k", 0) % len(cands)]
            ent = (t_new, op["label"])
            obj = p.Point(*ent)
        arg = obj if op["form"] == "obj" else (tuple(ent) if op["form"] == "tuple" else list(ent))
        call(lambda: T.insertEntry(arg, fresh(op["mode"]), fresh(op["report"])))
    elif kind == "delete_entry":
        r.mutator = True
        ents = list(T.entries)
        if op["absent"] or not ents:
            r.in_domain = False
            obj = p.Interval(900.0, 901.0, "zz") if is_int else p.Point(900.0, "zz")
        else:
            obj = ents[op["sel"] % len(ents)]
        call(lambda: T.deleteEntry(obj))
    elif kind in ("union", "difference", "intersection", "merge_labels", "append", "dejitter", "morph"):
        r.args = [U]
        if kind in ("difference", "intersection", "merge_labels", "morph") and not (is_int and isinstance(U, p.IntervalTier)):
            r.status = "skipped"
            return r
        if kind == "union" and not same_type:
            r.status = "skipped"
            return r
        if kind == "union":
            r.result = call(lambda: T.union(U))
        elif kind == "difference":
            r.result = call(lambda: T.difference(U))
        elif kind == "intersection":
            r.result = call(lambda: T.intersection(U))
        elif kind == "merge_labels":
            r.result = call(lambda: T.mergeLabels(U))
        elif kind == "append":
            r.result = call(lambda: T.appendTier(U))
        elif kind == "dejitter":
            if len(U.entries) == 0:
                r.in_domain = False  # empty reference: documented error case
            r.result = call(lambda: T.dejitter(U, op["maxdiff"]))
        elif kind == "morph":
            flt = None if op["filter"] is None else (lambda lab, f=op["filter"]: lab == f)
            r.result = call(lambda: T.morph(U, flt))
    elif kind == "new":
        kw = {}
        if op.get("minT") is not None:
            kw["minTimestamp"] = op["minT"]
        if op.get("maxT") is not None:
            kw["maxTimestamp"] = op["maxT"]
        if op.get("name") is not None:
            kw["name"] = op["name"]
        if op.get("ulp_inside") and len(T.entries) > 0:
            import math
            kw["maxTimestamp"] = math.nextafter(T.entries[-1][-2], -math.inf)  # one unit in the last place inside the last entry
        r.result = call(lambda: T.new(**kw))
    else:
        raise AssertionError(kind)
    if r.result is not None:
        if len(tiers) >= 4:
            tiers[op["u"] % len(tiers)] = r.result
        else:
            tiers.append(r.result)
    return r
