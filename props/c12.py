"""C12 - a Textgrid is an ordered, uniquely-named tier map and edits act tier-wise."""
from __future__ import annotations

import math

from hypothesis import strategies as st

from vlib import gen, models
from vlib.pio import P, mk_tier, mk_tg, snap_tier, snap_tg, quiet
from vlib.run import Check, Violation, note_accept
from props import c10

PROPERTY = "C12"
RULE = (
    "enum: breadth-first exploration of all sequences of addTier(name in {a,b,c,d}, index in {None,-2..len+2}), removeTier, "
    "renameTier and replaceTier over <=4 names to depth 5 (thorough: 6), memoised on (model state, depth); every transition "
    "is replayed from an empty Textgrid and compared with an ordered-list model after every step (names, order, the tier "
    "each name maps to - tiers carry a distinguishing payload - and span). gen: random histories with tiers of differing "
    "spans (span only widens), and random multi-tier textgrids x crop / eraseRegion / insertSpace / editTimestamps / "
    "mergeTiers compared tier-wise with the same operation applied to each tier (exact snapshots) and with validate(). "
    "Non-trivial: a history that contains an indexed insert followed by a rename or replace, or a rejected operation; a "
    "tier-wise edit that changes at least one entry."
)
ASSUMPTIONS = [
    "addTier's tierIndex has list.insert semantics (what the code does and the quantifier's index range -2..len+2 implies)",
    "removing a missing tier / renaming or replacing a missing name must raise (any exception) and change nothing",
    "tier objects handed to addTier/replaceTier stay as the caller made them (a textgrid edits its map, not its callers' tiers)",
]
REQUIRED_CLASSES = ["map_bfs:indexed_insert_then_rename_or_replace", "map_bfs:rejected_duplicate", "tierwise:changed",
                    "tierwise:insert_error_mode_at_interval_start", "tierwise:insert_error_mode_rejected"]

NAMES = ["a", "b", "c", "d"]


def _mk(name, variant, span=(0.0, 4.0)):
    """A tier whose content identifies (name-independent) its variant."""
    p = P()
    if variant % 2 == 1:
        # odd variants are point tiers: a slot takes a tier of either kind
        return p.PointTier(name, [p.Point((span[0] + span[1]) / 2, f"v{variant}")], span[0], span[1])
    return p.IntervalTier(name, [p.Interval(span[0], (span[0] + span[1]) / 2, f"v{variant}")], span[0], span[1])


def _variant_of(tier):
    return int(tier.entries[0].label[1:])


def model_apply(state, op):
    """state: tuple of (name, variant).  -> (new_state, status) status in ok|dup|missing"""
    lst = list(state)
    names = [n for n, _ in lst]
    kind = op["op"]
    if kind == "add":
        if op["name"] in names:
            return state, "dup"
        item = (op["name"], op["variant"])
        if op["index"] is None:
            lst.append(item)
        else:
            lst.insert(op["index"], item)
        return tuple(lst), "ok"
    if kind == "remove":
        if op["name"] not in names:
            return state, "missing"
        del lst[names.index(op["name"])]
        return tuple(lst), "ok"
    if kind == "rename":
        if op["name"] not in names:
            return state, "missing"
        if op["new"] in names and op["new"] != op["name"]:
            return state, "dup"
        i = names.index(op["name"])
        lst[i] = (op["new"], lst[i][1])
        return tuple(lst), "ok"
    if kind == "replace":
        if op["name"] not in names:
            return state, "missing"
        if op["new"] in names and op["new"] != op["name"]:
            return state, "dup"
        i = names.index(op["name"])
        lst[i] = (op["new"], op["variant"])
        return tuple(lst), "ok"
    raise AssertionError(kind)


HANDED = []  # (tier object handed to the textgrid, its snapshot at that time)


def real_apply(tg, op, span=(0.0, 4.0)):
    kind = op["op"]
    with quiet():
        if kind == "add":
            t = _mk(op["name"], op["variant"], span)
            HANDED.append((t, snap_tier(t)))
            tg.addTier(t, op["index"])
        elif kind == "remove":
            tg.removeTier(op["name"])
        elif kind == "rename":
            tg.renameTier(op["name"], op["new"])
        else:
            t = _mk(op["new"], op["variant"], span)
            HANDED.append((t, snap_tier(t)))
            tg.replaceTier(op["name"], t)


def check_handed(what):
    """A textgrid must not rename or edit the tier objects its callers hold (they may sit in other textgrids)."""
    for t, snap in HANDED:
        if snap_tier(t) != snap:
            raise Violation("argument-tier-modified", f"{what}: a tier object handed to the textgrid changed from {snap} to {snap_tier(t)}")


def observe(tg):
    out = []
    for n, t in zip(tg.tierNames, tg.tiers):
        if t.name != n or tg.getTier(n) is not t:
            raise Violation("map-inconsistent", f"name {n!r} maps to a tier named {t.name!r}")
        out.append((n, _variant_of(t)))
    return tuple(out)


def run_path(case):
    p = P()
    tg = p.Textgrid()
    state = ()
    classes = set()
    indexed = False
    del HANDED[:]
    for k, op in enumerate(case["ops"]):
        new_state, status = model_apply(state, op)
        before = observe(tg)
        try:
            real_apply(tg, op)
            raised = None
        except Exception as e:  # noqa
            raised = e
        what = f"step {k} {op} from {state}"
        if status == "ok":
            if raised is not None:
                from vlib.run import exc_origin
                raise Violation("valid-op-rejected", f"{what}: {type(raised).__name__}: {raised}")
        else:
            if raised is None:
                raise Violation("invalid-op-accepted", f"{what}: expected rejection ({status})")
            if status == "dup" and not isinstance(raised, p.errors.TierNameExistsError):
                raise Violation("wrong-error", f"{what}: {type(raised).__name__} instead of TierNameExistsError")
            note_accept(f"rejected({status})")
            classes.add("rejected_duplicate" if status == "dup" else "rejected_missing")
        got = observe(tg)
        if got != new_state:
            raise Violation("state-differs", f"{what}: textgrid {got} != model {new_state}")
        check_handed(what)
        if len(set(tg.tierNames)) != len(tg.tierNames):
            raise Violation("duplicate-names", f"{what}: {tg.tierNames}")
        state = new_state
        if op["op"] == "add" and op["index"] is not None and status == "ok":
            indexed = True
        if indexed and op["op"] in ("rename", "replace") and status == "ok":
            classes.add("indexed_insert_then_rename_or_replace")
    if state and (tg.minTimestamp, tg.maxTimestamp) != (0.0, 4.0):
        raise Violation("span", f"span [{tg.minTimestamp},{tg.maxTimestamp}]")
    return {"classes": sorted(classes), "nontrivial": bool(classes)}


def all_ops(state):
    names = [n for n, _ in state]
    n = len(state)
    ops = []
    for nm in NAMES:
        for idx in [None] + list(range(-2, n + 3)):
            ops.append({"op": "add", "name": nm, "variant": 0 if (nm, 0) not in state else 1, "index": idx})
    for nm in NAMES:
        ops.append({"op": "remove", "name": nm})
    for nm in names + [x for x in NAMES if x not in names][:1]:
        for new in NAMES:
            ops.append({"op": "rename", "name": nm, "new": new})
            cur = dict(state).get(nm, 0)
            ops.append({"op": "replace", "name": nm, "new": new, "variant": 1 - cur})
    return ops


def enum_bfs(tier, shard, nshards):
    depth = 5 if tier == "quick" else 6
    frontier = {(): []}
    i = 0
    for d in range(depth):
        nxt = {}
        for state, path in frontier.items():
            for op in all_ops(state):
                new_state, status = model_apply(state, op)
                if len(new_state) > 4:
                    continue
                i += 1
                if i % nshards == shard:
                    yield {"ops": path + [op]}
                if status == "ok" and new_state not in nxt and new_state not in frontier:
                    nxt[new_state] = path + [op]
        # states already expanded at an earlier depth need no re-expansion:
        # behaviour depends only on the (verified) observable state
        frontier = nxt


# ---------------------------------------------------------------- random histories with spans


@st.composite
def span_histories(draw):
    ops = []
    spans = [(0.0, 1.0), (0.0, 2.0), (0.5, 3.0), (1.0, 1.5), (0.0, 4.0),
             # spans that differ from the others in the last place only: a wider tier is a wider tier
             (0.0, math.nextafter(2.0, math.inf)), (math.nextafter(0.5, -math.inf), 3.0), (0.0, 0.3), (0.0, 0.1 + 0.2),
             (0.0, math.nextafter(4.0, math.inf))]
    for _ in range(draw(st.integers(1, 8))):
        k = draw(st.sampled_from(["add", "add", "remove", "rename", "replace"]))
        nm = draw(st.sampled_from(NAMES))
        op = {"op": k, "name": nm}
        if k == "add":
            op.update(variant=draw(st.integers(0, 5)), index=draw(st.one_of(st.none(), st.integers(-2, 6))),
                      span=list(draw(st.sampled_from(spans))))
        elif k == "rename":
            op.update(new=draw(st.sampled_from(NAMES)))
        elif k == "replace":
            op.update(new=draw(st.sampled_from(NAMES)), variant=draw(st.integers(0, 5)),
                      span=list(draw(st.sampled_from(spans))))
        ops.append(op)
    return {"ops": ops}


def run_span_history(case):
    p = P()
    tg = p.Textgrid()
    state = ()
    lo = hi = None
    classes = set()
    del HANDED[:]
    for k, op in enumerate(case["ops"]):
        new_state, status = model_apply(state, op)
        span = tuple(op.get("span", (0.0, 4.0)))
        before_span = (tg.minTimestamp, tg.maxTimestamp)
        try:
            real_apply(tg, op, span)
            raised = None
        except Exception as e:  # noqa
            raised = e
        what = f"step {k} {op} from {state}"
        if (status == "ok") != (raised is None):
            raise Violation("accept-reject-mismatch", f"{what}: model {status}, real {type(raised).__name__ if raised else 'ok'}")
        if observe(tg) != new_state:
            raise Violation("state-differs", f"{what}: textgrid {observe(tg)} != model {new_state}")
        check_handed(what)
        if status == "ok" and op["op"] in ("add", "replace"):
            lo = span[0] if lo is None else min(lo, span[0])
            hi = span[1] if hi is None else max(hi, span[1])
            if before_span != (None, None) and (span[0] < before_span[0] or span[1] > before_span[1]):
                classes.add("span_widened")
                if (span[0] >= before_span[0] or before_span[0] - span[0] < 1e-9) and (span[1] <= before_span[1] or span[1] - before_span[1] < 1e-9):
                    classes.add("span_widened_by_an_ulp")
        if (tg.minTimestamp, tg.maxTimestamp) != (lo, hi):
            raise Violation("span", f"{what}: span [{tg.minTimestamp},{tg.maxTimestamp}] != model [{lo},{hi}]")
        state = new_state
        if status != "ok":
            classes.add("rejected")
    return {"classes": sorted(classes), "nontrivial": bool(classes)}


# ---------------------------------------------------------------- tier-wise edits


@st.composite
def tierwise_cases(draw):
    style = draw(gen.STYLES_ARITH)
    spec = draw(gen.textgrid(style=style, max_tiers=4, label=gen.AB, clean=draw(st.integers(0, 4)) > 0))
    ts = sorted({t for tr in spec["tiers"] for e in tr["entries"] for t in e[:-1]} | {spec["minT"], spec["maxT"]})
    mids = [(x + y) / 2 for x, y in zip(ts, ts[1:])]
    near = []
    if style != "grid":
        pts_ = sorted({e[0] for tr in spec["tiers"] if tr["type"] == "point" for e in tr["entries"]})[:6]
        near = [math.nextafter(t, math.inf) for t in pts_] + [math.nextafter(t, -math.inf) for t in pts_ if t > 0]
        near = [x for x in near if spec["minT"] <= x <= spec["maxT"]]  # (windows and regions stay inside the textgrid's span)
    pick = st.sampled_from(ts + mids + near)  # near: a window edge one unit in the last place beside a point
    kind = draw(st.sampled_from(["crop", "erase", "insert", "edit", "crop", "insert", "erase", "crop"]))
    op = {"kind": kind}
    if kind in ("crop", "erase"):
        a, b = draw(pick), draw(pick)
        if a > b:
            a, b = b, a
        if a == b:
            a, b = spec["minT"], spec["maxT"]
        op.update(a=a, b=b)
        if kind == "crop":
            op.update(mode=draw(st.sampled_from(["strict", "lax", "truncated"])), rebase=draw(st.booleans()))
        else:
            op.update(shrink=draw(st.booleans()))
    elif kind == "insert":
        op.update(s=draw(pick), d=draw(st.sampled_from([0.5, 0.125, 1.0, 0.3, 2.7])),
                  mode=draw(st.sampled_from(["stretch", "split", "no_change", "error", "default"])))
        starts = sorted({e[0] for tr in spec["tiers"] if tr["type"] == "interval" for e in tr["entries"]})
        if op["mode"] in ("error", "default") and starts and draw(st.booleans()):
            op["s"] = draw(st.sampled_from(starts))  # on an interval's start: nothing straddles because of that interval
    else:
        op.update(offset=draw(st.one_of(st.sampled_from([0.0, 0.5, -0.5, 1.0, 0.3]), pick.map(lambda t: -t))))
    return {"tg": spec, "op": op}


def run_tierwise(case):
    p = P()
    spec, op = case["tg"], case["op"]
    tg = mk_tg(spec)
    clean = all((t["minT"], t["maxT"]) == (spec["minT"], spec["maxT"]) for t in spec["tiers"])
    kind = op["kind"]
    if kind == "insert":
        from props.c08 import _unrepresentable_split
        if any(_unrepresentable_split(t, op["s"], op["d"], op["mode"]) for t in spec["tiers"]):
            # (as in C08: a split piece narrower than the float resolution at its shifted position cannot be represented)
            return {"classes": ["skipped_unrepresentable_split_piece"], "nontrivial": False}
    with quiet():
        if kind == "crop":
            f = lambda x: x.crop(op["a"], op["b"], op["mode"], op["rebase"])
        elif kind == "erase":
            f = lambda x: x.eraseRegion(op["a"], op["b"], doShrink=op["shrink"])
            ft = lambda x: x.eraseRegion(op["a"], op["b"], "truncate", op["shrink"])
        elif kind == "insert":
            f = (lambda x: x.insertSpace(op["s"], op["d"])) if op["mode"] == "default" else (lambda x: x.insertSpace(op["s"], op["d"], op["mode"]))
        else:
            f = lambda x: x.editTimestamps(op["offset"], "silence")
        if kind != "erase":
            ft = f
        if kind == "insert" and op["mode"] == "default":  # only the textgrid-level method has a default
            ft = lambda x: x.insertSpace(op["s"], op["d"], "error")
        if kind == "insert" and op["mode"] in ("error", "default"):
            # 'error' (the default): rejected exactly when some tier rejects it
            refusing = []
            for t in spec["tiers"]:
                try:
                    ft(mk_tier(t))
                except p.errors.PraatioException:
                    refusing.append(t["name"])
            try:
                res = f(tg)
            except p.errors.PraatioException as e:
                if not refusing:
                    raise Violation("not-tierwise", f"{kind} {op}: textgrid-level raised {type(e).__name__} although every tier accepts the call")
                note_accept("insertSpace('error') rejected: a tier has an interval straddling the insertion point")
                return {"classes": [kind, "insert_error_mode_rejected"], "nontrivial": True}
            if refusing:
                raise Violation("not-tierwise", f"{kind} {op}: textgrid-level accepted although tiers {refusing} reject the call")
            if any(e[0] == op["s"] for t in spec["tiers"] if t["type"] == "interval" for e in t["entries"]):
                extra_cl = ["insert_error_mode_at_interval_start"]
            else:
                extra_cl = ["insert_error_mode_accepted"]
        else:
            extra_cl = []
            res = f(tg)
        if list(res.tierNames) != [t["name"] for t in spec["tiers"]]:
            raise Violation("tier-names", f"{kind}: {res.tierNames}")
        changed = False
        for t in spec["tiers"]:
            want = snap_tier(ft(mk_tier(t)))
            got = snap_tier(res.getTier(t["name"]))
            if want != got:
                raise Violation("not-tierwise", f"{kind} {op}: tier {t['name']}: textgrid-level {got} != tier-level {want}")
            if got["entries"] != snap_tier(mk_tier(t))["entries"]:
                changed = True
        must_validate = clean and (kind in ("erase", "insert") or (kind == "crop" and op["mode"] != "lax"))
        if must_validate and res.validate("silence") is not True:
            raise Violation("invalid-result", f"{kind} {op}: validate() False; tg [{res.minTimestamp},{res.maxTimestamp}] tiers "
                            f"{[(t.minTimestamp, t.maxTimestamp) for t in res.tiers]}")
        if len(set(res.tierNames)) != len(res.tierNames):
            raise Violation("duplicate-names", str(res.tierNames))
    cl = [kind] + (["changed"] if changed else []) + (["clean"] if clean else ["span_mismatch"]) + extra_cl
    return {"classes": cl, "nontrivial": changed}


CHECKS = [
    Check("map_bfs", run_path, kind="enum", enum=enum_bfs, exhaustive=True, distinct_by_construction=True,
          doc="all add/remove/rename/replace sequences over 4 names to depth 5 (6), memoised on model state"),
    Check("map_spans", run_span_history, strategy=lambda tier: span_histories(), quick_n=800, thorough_n=12000,
          doc="random histories with tiers of differing spans: span only widens"),
    Check("tierwise", run_tierwise, strategy=lambda tier: tierwise_cases(), quick_n=2600, thorough_n=20000,
          doc="Textgrid-level crop/eraseRegion/insertSpace/editTimestamps == per-tier operation; validate()"),
    Check("merge_tiers", c10.run_merge_tiers, strategy=lambda tier: c10.merge_cases(), quick_n=300, thorough_n=6000),
]
KNOWN = {}
