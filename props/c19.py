"""C19 - KlattGrid and point-object files round-trip every number exactly."""
from __future__ import annotations

import copy
import functools
import operator
import os

from hypothesis import strategies as st

from vlib import kgspec, tgspec
from vlib.pio import P, quiet, tmpdir
from vlib.run import Check, Violation, note_accept, REPO_DIR

PROPERTY = "C19"
RULE = (
    "gen: synthetic KlattGrids rendered in Praat's layout by vlib/kgspec.py from the reference file's section skeleton with 1-5 "
    "oral and frication formants and 0-5 points per (sub)tier, values drawn from {integers, 0, 17-significant-digit decimals, "
    "tiny 1e-7.., huge ..1e20, negative}, plus the reference KlattGrid itself; value modifications {x1.2, x1/3, +0.1, constants "
    "5 / 0 / 1e-5 / 1e20, negation} on a generated subset of plain tiers and container groups; PointProcess / PitchTier / "
    "DurationTier lists of 0..6 points in short and long text. Oracle: open(file) equals the generating data bit-for-bit; "
    "open->save->open equals the first open bit-for-bit and the second save reproduces the first save's text; the free-standing "
    "numbers of every written file (independent tokenizer) equal the in-memory numbers in order; modifications apply f exactly "
    "once to the addressed values and nothing else; point objects come back with the same class, span and list, and long and "
    "short encodings open equal. Non-trivial: >=1 point with a non-integral value in a container sub-tier / >=1 point."
)
ASSUMPTIONS = [
    "vlib/kgspec.py reproduces the KlattGrid / point-object text layouts of the repository's Praat-written fixtures (trusted base)",
    "-0.0 and 0.0 are the same value",
]
REQUIRED_CLASSES = ["klatt_constructed:shared_point_list", "klatt_synthetic:sub_tier_modified_directly_after_save", "klatt_synthetic:ten_or_more_formants", "klatt_synthetic:last_subtier_has_points", "klatt_synthetic:one_digit_value", "klatt_synthetic:modified", "klatt_constructed:first_value_kept_later_changed",
                    "point_objects:zero_points", "point_objects:long", "klatt_fixture:fixture"]


def flatten(snap):
    """The sequence of free-standing numbers a KlattGrid file must contain."""
    out = [snap["xmin"], snap["xmax"]]
    for s in snap["sections"]:
        if s["kind"] == "points":
            out += s["span"]
            if s["name"] not in kgspec.NULL_TIERS:
                out.append(float(len(s["points"])))
                for t, v in s["points"]:
                    out += [t, v]
        else:
            # the container's own span is not observable through the object; take it from its sub tiers
            first = s["groups"][0]["tiers"][0]["span"] if s["groups"] and s["groups"][0]["tiers"] else [snap["xmin"], snap["xmax"]]
            out += first
            for g in s["groups"]:
                out.append(float(len(g["tiers"])))
                for t in g["tiers"]:
                    out += t["span"] + [float(len(t["points"]))]
                    for a, b in t["points"]:
                        out += [a, b]
    return out


def numbers_in(text):
    return [float(v) for k, v in tgspec.tokenize(text) if k == "num"]


def diff_snap(a, b, what):
    if a == b:
        return
    if (a["xmin"], a["xmax"]) != (b["xmin"], b["xmax"]):
        raise Violation("span", f"{what}: span {a['xmin'], a['xmax']} != {b['xmin'], b['xmax']}")
    na, nb = [s["name"] for s in a["sections"]], [s["name"] for s in b["sections"]]
    if na != nb:
        raise Violation("hierarchy", f"{what}: sections {na} != {nb}")
    for sa, sb in zip(a["sections"], b["sections"]):
        if sa == sb:
            continue
        if sa["kind"] != sb["kind"]:
            raise Violation("hierarchy", f"{what}: section {sa['name']} is {sa['kind']} vs {sb['kind']}")
        if sa["kind"] == "points":
            raise Violation("values", f"{what}: tier {sa['name']}: {sa['span']} {sa['points']} != {sb['span']} {sb['points']}")
        ga, gb = [g["name"] for g in sa["groups"]], [g["name"] for g in sb["groups"]]
        if ga != gb:
            raise Violation("hierarchy", f"{what}: {sa['name']} groups {ga} != {gb}")
        for x, y in zip(sa["groups"], sb["groups"]):
            if [t["name"] for t in x["tiers"]] != [t["name"] for t in y["tiers"]]:
                raise Violation("hierarchy", f"{what}: {sa['name']}/{x['name']} sub tiers {[t['name'] for t in x['tiers']]} != {[t['name'] for t in y['tiers']]}")
            for tx, ty in zip(x["tiers"], y["tiers"]):
                if tx != ty:
                    raise Violation("values", f"{what}: {sa['name']}/{tx['name']}: {tx['span']} {tx['points']} != {ty['span']} {ty['points']}")
    raise Violation("values", f"{what}: snapshots differ")


def _roundtrip(kg, snap1, label):
    """save -> open -> save; returns text of first save."""
    from praatio import klattgrid

    fn = os.path.join(tmpdir(), "c19_rt.KlattGrid")
    kg.save(fn)
    with open(fn, "rb") as fd:
        text1 = fd.read().decode("utf-8")
    nums = numbers_in(text1)
    want = flatten(snap1)
    if nums != want:
        i = next((k for k, (x, y) in enumerate(zip(nums, want)) if x != y), min(len(nums), len(want)))
        raise Violation("written-numbers", f"{label}: saved file holds {len(nums)} numbers, in-memory {len(want)}; first difference at #{i}: "
                        f"{nums[max(0, i-2):i+3]} vs {want[max(0, i-2):i+3]}")
    try:
        kg2 = klattgrid.openKlattgrid(fn)
    except Exception as e:  # noqa
        raise Violation(f"reopen-failed:{type(e).__name__}", f"{label}: {type(e).__name__}: {e}")
    diff_snap(kgspec.snapshot(kg2), snap1, f"{label}: open(save(kg)) vs kg")
    fn2 = os.path.join(tmpdir(), "c19_rt2.KlattGrid")
    kg2.save(fn2)
    with open(fn2, "rb") as fd:
        text2 = fd.read().decode("utf-8")
    if numbers_in(text2) != nums:
        raise Violation("not-a-fixed-point", f"{label}: the numbers of the second save differ from the first")
    # the written form of a reopened KlattGrid is a fixed point (a value set to the int 5 by a
    # modification function is first written '5' and from then on '5.0': same number)
    kg3 = klattgrid.openKlattgrid(fn2)
    kg3.save(fn)
    with open(fn, "rb") as fd:
        text3 = fd.read().decode("utf-8")
    if text3 != text2:
        i = next((k for k in range(min(len(text3), len(text2))) if text3[k] != text2[k]), min(len(text3), len(text2)))
        raise Violation("not-a-fixed-point", f"{label}: re-saved text differs at offset {i}: {text2[max(0, i-40):i+20]!r} vs {text3[max(0, i-40):i+20]!r}")
    return kg2


def _scaled(value, factor=1.1, offset=0.0):
    return value * factor + offset


MODS = {
    "x1.2": lambda v: v * 1.2,
    "x1/3": lambda v: v / 3,
    "+0.1": lambda v: v + 0.1,
    "const5": lambda v: 5,
    "const0": lambda v: 0,
    "const1e-5": lambda v: 1e-5,
    "const1e20": lambda v: 1e20,
    "neg": lambda v: -v,
    # callables of other shapes: a bound parameter with a default (the loop-binding idiom), a def with a keyword
    # option, a builtin, a partial - each is still called with the value only
    "x0.9_default_arg": lambda v, k=0.9: v * k,
    "+0.5_default_arg": lambda v, c=0.5: v + c,
    "def_with_option": _scaled,
    "builtin_abs": abs,
    "partial_mul": functools.partial(operator.mul, 1.5),
}


MOD_NAMES = sorted(MODS) + ["x0.9_default_arg", "+0.5_default_arg", "def_with_option"]


FIXED_FIRST = [False]


def _note_fixed_first(points, f):
    if len(points) >= 2 and float(f(points[0][1])) == points[0][1] and any(float(f(b)) != b for _, b in points[1:]):
        FIXED_FIRST[0] = True


def apply_mods(kg, snap, mods):
    """Apply through the API and to the snapshot model."""
    FIXED_FIRST[0] = False
    exp = copy.deepcopy(snap)
    secs = {s["name"]: s for s in exp["sections"]}
    for target, fname in mods:
        f = MODS[fname]
        if target.count("/") == 2:
            # one sub tier, modified directly through its own modifyValues (as examples/klatt_resynthesis.py does)
            cname, gname, idx = target.split("/")
            if cname not in secs:
                continue
            grp = next((g for g in secs[cname]["groups"] if g["name"] == gname), None)
            if grp is None or not grp["tiers"]:
                continue
            t = grp["tiers"][int(idx) % len(grp["tiers"])]
            kg.getTier(cname).tierDict[gname].tierDict[t["name"]].modifyValues(f)
            _note_fixed_first(t["points"], f)
            t["points"] = [[a, float(f(b))] for a, b in t["points"]]
        elif "/" in target:
            cname, gname = target.split("/")
            if cname not in secs:
                continue
            grp = next((g for g in secs[cname]["groups"] if g["name"] == gname), None)
            if grp is None:
                continue
            kg.getTier(cname).modifySubtiers(gname, f)
            for t in grp["tiers"]:
                _note_fixed_first(t["points"], f)
                t["points"] = [[a, float(f(b))] for a, b in t["points"]]
        else:
            if target not in secs or secs[target]["kind"] != "points":
                continue
            kg.getTier(target).modifyValues(f)
            _note_fixed_first(secs[target]["points"], f)
            secs[target]["points"] = [[a, float(f(b))] for a, b in secs[target]["points"]]
    return exp


def run_synthetic(case):
    from praatio import klattgrid

    data = case["kg"]
    text0 = kgspec.write_klattgrid(data, case["trailing_blank"])
    fn = os.path.join(tmpdir(), "c19_in.KlattGrid")
    with open(fn, "wb") as fd:
        fd.write(text0.encode("utf-8"))
    try:
        kg1 = klattgrid.openKlattgrid(fn)
    except Exception as e:  # noqa
        raise Violation(f"open-failed:{type(e).__name__}", f"{type(e).__name__}: {e}; file starts {text0[:200]!r}")
    snap1 = kgspec.snapshot(kg1)
    diff_snap(snap1, kgspec.expected_snapshot(data), "open(file) vs the data the file encodes")
    kg2 = _roundtrip(kg1, snap1, "round trip")
    cl = set()
    for s in data["sections"]:
        if s["kind"] == "container":
            last = s["groups"][-1]["tiers"][-1]
            if last:
                cl.add("last_subtier_has_points")
                if len(kgspec.num(last[-1][1])) == 1:
                    cl.add("one_digit_value")
    if case["mods"]:
        # kg2 has been saved once already (by _roundtrip): modifications made now must show in the next save
        exp = apply_mods(kg2, snap1, case["mods"])
        got = kgspec.snapshot(kg2)
        diff_snap(got, exp, f"after modifications {case['mods']}")
        _roundtrip(kg2, got, f"round trip after {case['mods']}")
        if FIXED_FIRST[0]:
            cl.add("first_value_kept_later_changed")
        if exp != snap1:
            cl.add("modified")
            if any(t.count("/") == 2 for t, _ in case["mods"]):
                cl.add("sub_tier_modified_directly_after_save")
    if any(len(g["tiers"]) >= 10 for s in data["sections"] if s["kind"] == "container" for g in s["groups"]):
        cl.add("ten_or_more_formants")
    nt = any(s["kind"] == "container" and any(pts for g in s["groups"] for pts in g["tiers"]) for s in data["sections"])
    return {"classes": sorted(cl), "nontrivial": nt}


def run_fixture(case):
    from praatio import klattgrid

    fn = os.path.join(REPO_DIR, "tests", "files", "bobby.KlattGrid")
    with open(fn, "rb") as fd:
        text0 = fd.read().decode("utf-8")
    kg1 = klattgrid.openKlattgrid(fn)
    snap1 = kgspec.snapshot(kg1)
    nums, want = numbers_in(text0), flatten(snap1)
    if nums != want:
        i = next((k for k, (x, y) in enumerate(zip(nums, want)) if x != y), min(len(nums), len(want)))
        raise Violation("fixture-numbers", f"reference KlattGrid: file holds {len(nums)} numbers, opened object {len(want)}; first difference at #{i}: "
                        f"{nums[max(0, i-2):i+3]} vs {want[max(0, i-2):i+3]}")
    kg2 = _roundtrip(kg1, snap1, "reference KlattGrid round trip")
    if case["mods"]:
        exp = apply_mods(kg2, snap1, case["mods"])
        got = kgspec.snapshot(kg2)
        diff_snap(got, exp, f"reference KlattGrid after {case['mods']}")
        _roundtrip(kg2, got, f"reference KlattGrid round trip after {case['mods']}")
    return {"classes": ["fixture"], "nontrivial": True}


def run_point_object(case):
    from praatio import data_points
    from praatio.data_classes import data_point

    cls, pts, lo, hi = case["cls"], [tuple(x) for x in case["points"]], case["xmin"], case["xmax"]
    one_d = cls == "PointProcess"
    opener = data_points.open1DPointObject if one_d else data_points.open2DPointObject
    klass = data_point.PointObject1D if one_d else data_point.PointObject2D
    cl = set()
    if not pts:
        cl.add("zero_points")
    results = {}
    for layout in ("short", "long"):
        text = kgspec.write_point_object(cls, lo, hi, pts, layout == "long")
        fn = os.path.join(tmpdir(), f"c19.{cls}")
        with open(fn, "wb") as fd:
            fd.write(text.encode("utf-8"))
        try:
            po = opener(fn)
        except Exception as e:  # noqa
            raise Violation(f"open-failed:{layout}:{type(e).__name__}", f"{cls} {layout} with {len(pts)} points: {type(e).__name__}: {e}; text={text[:200]!r}")
        got = (po.objectClass, po.minTime, po.maxTime, [tuple(p) for p in po.pointList])
        want = (cls, lo, hi, pts)
        if got != want:
            raise Violation(f"open-differs:{layout}", f"{cls} {layout}: opened {got}, file encodes {want}")
        results[layout] = po
        cl.add(layout)
    if not (results["short"] == results["long"]):
        raise Violation("long-short-differ", f"{cls}: long and short encodings open to unequal objects")
    # save -> open
    po = klass(list(pts), cls, lo, hi)
    fn = os.path.join(tmpdir(), f"c19_saved.{cls}")
    po.save(fn)
    with open(fn, "rb") as fd:
        text = fd.read().decode("utf-8")
    try:
        back = opener(fn)
    except Exception as e:  # noqa
        raise Violation(f"reopen-failed:{type(e).__name__}", f"{cls} with {len(pts)} points: {type(e).__name__}: {e}; text={text[:200]!r}")
    got = (back.objectClass, back.minTime, back.maxTime, [tuple(p) for p in back.pointList])
    if got != (cls, lo, hi, pts):
        raise Violation("roundtrip-differs", f"{cls}: saved {(cls, lo, hi, pts)}, reopened {got}")
    nums = numbers_in(text)
    flat = [float(lo), float(hi), float(len(pts))] + [float(x) for p in pts for x in p]
    if nums != flat:
        raise Violation("written-numbers", f"{cls}: file numbers {nums} != {flat}")
    return {"classes": sorted(cl), "nontrivial": bool(pts)}


# ------------------------------------------------------------------- generators


def values():
    return st.one_of(
        st.integers(-5, 9000).map(float),
        st.sampled_from([0.0, 5.0, 7.0, 1.0, 100.0, 60.0]),
        st.floats(0.001, 9000, allow_nan=False),
        st.floats(-100, 100, allow_nan=False),
        st.sampled_from([1e-7, 3.3e-6, 1e20, 2.5e17, 1e-05, 123456789.12345679, 0.1, 1 / 3]),
        st.sampled_from([121.00000000000001, 242.00000000000003, 1.0000000000000002, 2.0000000000000004, 99.99999999999999, 110 * 1.1]),
    )


@st.composite
def point_list(draw, hi, max_n=5):
    n = draw(st.integers(0, max_n))
    if n == 0:
        return []
    ks = sorted(draw(st.lists(st.integers(0, 1000), min_size=n, max_size=n, unique=True)))
    if draw(st.integers(0, 3)) == 0:
        ks[-1] = 1000  # a point on the very end of the span (and, through k = 0, on its start) is legal in Praat
    vals = draw(st.lists(values(), min_size=n, max_size=n))
    if n >= 2 and draw(st.integers(0, 2)) == 0:
        # a tier opening with a value that many of the functions map onto itself (0 under every scaling and sign change,
        # 5 / 1e-5 / 1e20 under the constants) followed by one they do change: "every value exactly once" includes
        # the values behind an unchanged first one
        vals[0] = draw(st.sampled_from([0.0, 0.0, 5.0, 1e-05, 1e20]))
        if vals[1] == vals[0]:
            vals[1] = vals[0] + 1.0 if vals[0] < 1e19 else 7.0
    out = [[0.0 if k == 0 else hi if k == 1000 else hi * k / 1000, v] for k, v in zip(ks, vals)]
    if draw(st.integers(0, 3)) == 0:
        # the same point twice (KlattGrid tiers keep their points ordered by time and then value, so nothing is claimed
        # about the order of coinciding points with different values; equal ones stay two points through any function)
        i = draw(st.integers(0, n - 1))
        out.insert(i + 1, [out[i][0], out[i][1]])
    elif draw(st.integers(0, 3)) == 0 and out[-1][0] + 2e-9 <= hi:
        out.append([out[-1][0] + 2e-9, out[-1][1] + 1.0])  # two points two nanoseconds apart are two points
    return out


@st.composite
def klatt_cases(draw):
    hi = draw(st.sampled_from([1.194625, 2.0, 0.75, 10.0]))
    secs = kgspec.skeleton(draw(st.one_of(st.integers(1, 5), st.integers(1, 5), st.integers(10, 12))), draw(st.integers(1, 5)))
    dense = draw(st.integers(0, 2)) > 0
    for s in secs:
        if s["kind"] == "points":
            if draw(st.integers(0, 2 if dense else 5)) == 0:
                s["points"] = draw(point_list(hi))
        elif s["kind"] == "container":
            for g in s["groups"]:
                for i in range(len(g["tiers"])):
                    if draw(st.integers(0, 1 if dense else 3)) == 0:
                        g["tiers"][i] = draw(point_list(hi, 4))
    targets = [s["name"] for s in secs if s["kind"] == "points"] + \
              [f"{s['name']}/{g['name']}" for s in secs if s["kind"] == "container" for g in s["groups"]]
    # 'formants' is a substring of the amplitude groups' names: modifying it must not touch them
    targets += ["nasal_antiformants/formants", "tracheal_antiformants/formants", "frication_formants/formants"] * 4
    targets += [f"{s['name']}/{g['name']}/{i}" for s in secs if s["kind"] == "container" for g in s["groups"][:2] for i in (0, 1)]
    mods = draw(st.lists(st.tuples(st.sampled_from(targets), st.sampled_from(MOD_NAMES)).map(list), max_size=3))
    return {"kg": {"xmin": 0.0, "xmax": hi, "sections": secs}, "trailing_blank": draw(st.integers(0, 3)) > 0, "mods": mods}


def _kg_spans(kg):
    from praatio.data_classes.klattgrid import KlattContainerTier

    out = {}
    for name in kg.tierNames:
        tier = kg.getTier(name)
        if isinstance(tier, KlattContainerTier):
            for kit_name in tier.tierNameList:
                kit = tier.tierDict[kit_name]
                for sub in kit.tierNameList:
                    out[f"{name}/{kit_name}/{sub}"] = (float(kit.tierDict[sub].minTimestamp), float(kit.tierDict[sub].maxTimestamp))
        else:
            out[name] = (float(tier.minTimestamp), float(tier.maxTimestamp))
    return out


def _kg_paths(kg):
    from praatio.data_classes.klattgrid import KlattContainerTier

    out = {}
    for name in kg.tierNames:
        tier = kg.getTier(name)
        if isinstance(tier, KlattContainerTier):
            for kit_name in tier.tierNameList:
                kit = tier.tierDict[kit_name]
                for sub in kit.tierNameList:
                    out[f"{name}/{kit_name}/{sub}"] = [(float(t), float(v)) for t, v in kit.tierDict[sub].entries]
        else:
            out[name] = [(float(t), float(v)) for t, v in tier.entries]
    return out


def run_constructed(case):
    """A KlattGrid assembled with the public classes (not read from a file); the point lists the caller hands
    in may be one and the same list object for several tiers."""
    from praatio import klattgrid
    from praatio.data_classes.klattgrid import Klattgrid, KlattPointTier, KlattContainerTier, KlattIntermediateTier, KlattSubPointTier

    hi = case["xmax"]
    template = [tuple(x) for x in case["points"]]
    given = []

    def pts():
        lst = template_list if case["share"] else list(template)
        given.append(lst)
        return lst

    template_list = list(template)
    with quiet():
        kg = Klattgrid()
        kg.addTier(KlattPointTier("pitch", pts(), 0, hi))
        kg.addTier(KlattPointTier("voicingAmplitude", pts(), 0, hi))
        container = KlattContainerTier("oral_formants")
        for kind in ("formants", "bandwidths"):
            kit = KlattIntermediateTier(kind)
            for i in range(1, case["n"] + 1):
                # sibling sub-tiers may have spans of their own (each at least as long as its points need)
                hi_i = hi + (0.25 * i if case.get("own_spans") else 0.0)
                kit.addTier(KlattSubPointTier(f"{kind} [{i}]", pts(), 0, hi_i))
            container.addTier(kit)
        kg.addTier(container)
    exp = _kg_paths(kg)
    spans0 = _kg_spans(kg)
    want0 = [(float(t), float(v)) for t, v in template]
    if any(v != want0 for v in exp.values()):
        raise Violation("constructed-differs", f"a tier does not hold the points it was built from: {exp}")
    FIXED_FIRST[0] = False
    for target, fname in case["mods"]:
        f = MODS[fname]
        if "/" in target:
            kg.getTier("oral_formants").modifySubtiers(target.split("/")[1], f)
            hit = [k for k in exp if k.startswith(target + "/")]
        else:
            kg.getTier(target).modifyValues(f)
            hit = [target]
        for k in hit:
            _note_fixed_first(exp[k], f)
            exp[k] = [(t, float(f(v))) for t, v in exp[k]]
        got = _kg_paths(kg)
        for k in exp:
            if got[k] != exp[k]:  # float equality: the same number digit for digit (0.0 and -0.0 are one number, written '0')
                raise Violation("modify-not-exactly-once" if k in hit else "other-tier-touched",
                                f"after {fname} on {target}: tier {k} holds {got[k]}, expected {exp[k]} (share={case['share']})")
    if any([tuple(x) for x in lst] != template for lst in given):
        raise Violation("argument-mutated", "a point list handed to a tier constructor was changed")
    fn = os.path.join(tmpdir(), "c19_built.KlattGrid")
    with quiet():
        kg.save(fn)
        reopened = klattgrid.openKlattgrid(fn)
    back = _kg_paths(reopened)
    if _kg_spans(kg) != spans0:
        raise Violation("span-changed-in-memory", f"{_kg_spans(kg)} != {spans0}")
    if sorted(back) == sorted(exp) and _kg_spans(reopened) != spans0:
        raise Violation("roundtrip-spans", f"reopened spans {_kg_spans(reopened)} != {spans0}")
    if sorted(back) != sorted(exp):
        raise Violation("hierarchy", f"reopened: {sorted(back)} != {sorted(exp)}")
    for k in exp:
        if back[k] != exp[k]:
            raise Violation("roundtrip-values", f"tier {k} reopened as {back[k]}, expected {exp[k]}")
    cl = ["constructed"] + (["shared_point_list"] if case["share"] else []) + (["modified"] if case["mods"] else []) \
        + (["sub_tiers_with_spans_of_their_own"] if case.get("own_spans") and case["n"] > 1 else []) \
        + (["first_value_kept_later_changed"] if FIXED_FIRST[0] else [])
    return {"classes": cl, "nontrivial": bool(case["mods"]) and bool(template)}


@st.composite
def constructed_cases(draw):
    hi = draw(st.sampled_from([1.0, 2.5, 0.75]))
    pts = draw(point_list(hi, 4))
    targets = ["pitch", "voicingAmplitude", "oral_formants/formants", "oral_formants/bandwidths"]
    return {"xmax": hi, "points": pts, "n": draw(st.integers(1, 4)), "share": draw(st.booleans()), "own_spans": draw(st.booleans()),
            "mods": draw(st.lists(st.tuples(st.sampled_from(targets), st.sampled_from(MOD_NAMES)).map(list), max_size=3))}


@st.composite
def fixture_cases(draw):
    targets = ["pitch", "voicingAmplitude", "oral_formants/formants", "oral_formants/bandwidths", "gain", "nasal_formants/formants"]
    return {"mods": draw(st.lists(st.tuples(st.sampled_from(targets), st.sampled_from(MOD_NAMES)).map(list), max_size=2))}


@st.composite
def po_cases(draw):
    cls = draw(st.sampled_from(["PointProcess", "PitchTier", "DurationTier"]))
    hi = draw(st.sampled_from([1.0, 1.8696875, 2.5, 10.0]))
    n = draw(st.integers(0, 6))
    ks = sorted(draw(st.lists(st.integers(0, 1000), min_size=n, max_size=n, unique=draw(st.integers(0, 2)) > 0)))
    times = [hi * k / 1000 for k in ks]  # non-decreasing; coinciding times (a step in a PitchTier) keep their order
    if cls == "PointProcess":
        pts = [[t] for t in times]
    else:
        vals = draw(st.lists(values(), min_size=n, max_size=n))
        pts = [[t, v] for t, v in zip(times, vals)]
    return {"cls": cls, "points": pts, "xmin": draw(st.sampled_from([0, 0, 0.25, 0.1234567, 0.36484374999999997, 2.5e-05])), "xmax": hi}


CHECKS = [
    Check("klatt_synthetic", run_synthetic, strategy=lambda tier: klatt_cases(), quick_n=120, thorough_n=3000, fuzz_runs=3000),
    Check("klatt_constructed", run_constructed, strategy=lambda tier: constructed_cases(), quick_n=200, thorough_n=4000,
          doc="KlattGrids assembled with the public classes, point lists possibly shared between tiers"),
    Check("klatt_fixture", run_fixture, strategy=lambda tier: fixture_cases(), quick_n=4, thorough_n=20,
          doc="the repository's reference KlattGrid, with generated modifications"),
    Check("point_objects", run_point_object, strategy=lambda tier: po_cases(), quick_n=500, thorough_n=12000),
]
KNOWN = {}
