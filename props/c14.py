"""C14 - boundary adjusters move times only as far as allowed and keep labels."""
from __future__ import annotations

import math
from fractions import Fraction

from hypothesis import strategies as st

from vlib import gen, models
from vlib.pio import P, mk_tier, mk_tg, snap_tier, snap_tg, quiet
from vlib.run import Check, Violation, note_accept

PROPERTY = "C14"
RULE = (
    "gen: a tier (interval or point; dyadic grid or decimals) and a reference tier built from the tier's own timestamps displaced "
    "by {0, +-m/2, +-m (exactly maxDifference away), +-1.5m, both +-d (equidistant candidates)} plus unrelated timestamps, or an "
    "empty reference (error case), x maxDifference m in {0.001,0.05,0.125,0.5}; alignBoundariesAcrossTiers over textgrids built the "
    "same way; morph: pairs of interval tiers with equal entry counts (adjacent intervals, gaps, trailing gap) x filter in "
    "{None, label=='a', label=='b'}, unequal counts as error case. Oracle: per timestamp the nearest reference distance d decides: "
    "d < m(1-1e-12) or d == m exactly -> must equal a nearest reference value, d > m(1+1e-12) -> unchanged, else either; count/labels/order kept; "
    "a raised praatio error is accepted only if some interval can collapse; morph against an exact-rational model of the "
    "statement. Non-trivial: at least one timestamp moves and one stays (dejitter/align), or a selected interval changes duration (morph)."
)
ASSUMPTIONS = [
    "order among entries that end up at the same time (coinciding points) is not pinned",
    "alignBoundariesAcrossTiers' documented ArgumentError guard (reference timestamps closer than maxDifference) is accepted whenever two consecutive reference timestamps are closer than maxDifference",
    "morph tolerance: 8 ulp per interval of the largest timestamp involved",
]
REQUIRED_CLASSES = ["align:moved_tiny", "dejitter:reference_edited_in_place", "dejitter:moved", "dejitter:exactly_maxdiff_must_move", "morph:empty_label_selected", "dejitter:equidistant", "dejitter:stays", "morph:adjacent_decimal",
                    "dejitter:collapse_rejected", "align:moved"]

REL = Fraction(1, 10**12)


def allowed_values(t, refs, m):
    """-> (set of allowed result values, class)"""
    t_, m_ = Fraction(t), Fraction(m)
    d = min(abs(Fraction(r) - t_) for r in refs)
    # two candidates whose exact distances differ by less than the rounding of one float subtraction each are
    # a tie to any floating-point implementation: either may be taken
    tol = 2 * Fraction(math.ulp(max(abs(t), max(abs(r) for r in refs))))
    nearest = {r for r in refs if abs(Fraction(r) - t_) <= d + tol} if d > 0 else {r for r in refs if Fraction(r) == t_}
    if d < m_ * (1 - REL) or d == m_:
        # 'within maxDifference' includes a distance of exactly maxDifference (exact on the dyadic grid)
        cls = "already_on_ref" if d == 0 else ("exactly_maxdiff_must_move" if d == m_ else "moved")
        if 0 < d < t_ * Fraction(1, 10**9):
            cls = "moved_tiny"
        return set(nearest), cls, len(nearest) > 1
    if d > m_ * (1 + REL):
        return {t}, "stays", False
    return set(nearest) | {t}, "exactly_maxdiff", len(nearest) > 1


def check_dejitter_result(spec, refs, m, res_snap, what):
    classes = set()
    ents = spec["entries"]
    got = res_snap["entries"]
    if len(got) != len(ents):
        raise Violation("entry-count", f"{what}: {len(got)} entries from {len(ents)}")
    nt = len(ents[0]) - 1 if ents else 0
    # the result is sorted by the constructor; pair it with the source in source order, allowing
    # permutations among equal result times (points only)
    if sorted([e[-1] for e in ents]) != sorted([g[-1] for g in got]):
        raise Violation("labels", f"{what}: labels {[g[-1] for g in got]} from {[e[-1] for e in ents]}")
    used = [False] * len(got)
    for e in ents:
        ok = False
        for j, g in enumerate(got):
            if used[j] or g[-1] != e[-1]:
                continue
            fine = True
            for i in range(nt):
                allow, cl, tie = allowed_values(e[i], refs, m)
                if g[i] not in allow:
                    fine = False
                    break
            if fine:
                used[j] = True
                ok = True
                break
        if not ok:
            raise Violation("timestamp-rule", f"{what}: no result entry matches source {e} under the rule; result {got}, refs {refs}, m={m}")
        for i in range(nt):
            allow, cl, tie = allowed_values(e[i], refs, m)
            classes.add(cl)
            if tie:
                classes.add("equidistant")
    models.check_wellformed(res_snap, what)
    return classes


def can_collapse(spec, refs, m):
    if spec["type"] != "interval":
        return False
    prev_end_allowed = None
    for s, e, _ in spec["entries"]:
        a_s, _, _ = allowed_values(s, refs, m)
        a_e, _, _ = allowed_values(e, refs, m)
        if min(a_e) <= max(a_s):
            return True
        if prev_end_allowed is not None and max(prev_end_allowed) > min(a_s):
            return True
        prev_end_allowed = a_e
    return False


def run_dejitter(case):
    p = P()
    spec, ref, m = case["tier"], case["ref"], case["m"]
    tier, rt = mk_tier(spec), mk_tier(ref)
    extra = set()
    if case.get("ref_delete") is not None and ref["entries"]:
        # the reference was used once and then edited in place: the next dejitter must see its current timestamps
        try:
            with quiet():
                tier.dejitter(rt, m)
        except Exception:  # noqa - judged below on the real call
            pass
        cur = list(rt.entries)
        rt.deleteEntry(cur[case["ref_delete"] % len(cur)])
        ref = dict(ref, entries=[list(e) for e in rt.entries])
        extra.add("reference_edited_in_place")
    b0, r0 = snap_tier(tier), snap_tier(rt)
    refs = sorted({t for e in ref["entries"] for t in e[:-1]})
    what = f"dejitter(m={m!r})"
    try:
        with quiet():
            res = tier.dejitter(rt, m)
    except p.errors.PraatioException as e:
        if refs and can_collapse(spec, refs, m):
            note_accept("praatio error (collapse)")
            return {"classes": ["collapse_rejected"], "nontrivial": True}
        raise Violation("failed-on-valid-input", f"{what}: {type(e).__name__}: {e}; tier {spec['entries']} refs {refs}")
    except Exception as e:  # noqa
        if not refs:
            note_accept(f"empty reference: {type(e).__name__}")
            return {"classes": ["empty_reference"], "nontrivial": True}
        raise
    if not refs:
        # "empty references as error cases": with something to align the call raises (any exception type - the library's is a
        # ValueError); an entry-less tier against an entry-less reference has nothing to do and may come back unchanged
        if spec["entries"]:
            raise Violation("empty-reference-accepted", f"{what}: a reference tier without entries was accepted for a tier with {len(spec['entries'])} entries")
        if snap_tier(res)["entries"] != b0["entries"]:
            raise Violation("timestamp-rule", "dejitter with an empty reference changed entries")
        return {"classes": ["empty_reference_returned"], "nontrivial": False}
    if snap_tier(tier) != b0 or snap_tier(rt) != r0:
        raise Violation("operand-mutated", what)
    snap = snap_tier(res)
    cl = check_dejitter_result(spec, refs, m, snap, what) | extra
    if "exactly_maxdiff_must_move" in cl or "moved_tiny" in cl:
        cl.add("moved")
    return {"classes": sorted(cl), "nontrivial": "moved" in cl and "stays" in cl}


def run_align(case):
    p = P()
    spec, refname, m = case["tg"], case["ref"], case["m"]
    from praatio import praatio_scripts

    tg = mk_tg(spec)
    ref_spec = next(t for t in spec["tiers"] if t["name"] == refname)
    refs = sorted({t for e in ref_spec["entries"] for t in e[:-1]})
    ref_before = snap_tier(tg.getTier(refname))
    what = f"alignBoundariesAcrossTiers({refname!r},{m!r})"
    too_close = any(y - x < m for x, y in zip(refs, refs[1:]))
    try:
        with quiet():
            res = praatio_scripts.alignBoundariesAcrossTiers(tg, refname, m)
    except p.errors.ArgumentError as e:
        if too_close:
            note_accept("ArgumentError(reference timestamps closer than maxDifference)")
            return {"classes": ["guard_rejected"], "nontrivial": False}
        raise Violation("failed-on-valid-input", f"{what}: ArgumentError: {e}")
    except p.errors.PraatioException as e:
        if refs and any(can_collapse(t, refs, m) for t in spec["tiers"] if t["name"] != refname):
            note_accept("praatio error (collapse)")
            return {"classes": ["collapse_rejected"], "nontrivial": True}
        raise Violation("failed-on-valid-input", f"{what}: {type(e).__name__}: {e}")
    except Exception as e:  # noqa
        if not refs:
            note_accept(f"empty reference: {type(e).__name__}")
            return {"classes": ["empty_reference"], "nontrivial": True}
        raise
    if not refs and any(t["entries"] for t in spec["tiers"] if t["name"] != refname):
        raise Violation("empty-reference-accepted", f"{what}: a reference tier without entries was accepted although other tiers have entries")
    if list(res.tierNames) != [t["name"] for t in spec["tiers"]]:
        raise Violation("tier-names", f"{what}: {res.tierNames}")
    if snap_tier(res.getTier(refname)) != ref_before:
        raise Violation("reference-changed", f"{what}: the reference tier was modified")
    cl = set()
    if refs:
        for t in spec["tiers"]:
            if t["name"] == refname:
                continue
            cl |= check_dejitter_result(t, refs, m, snap_tier(res.getTier(t["name"])), f"{what} tier {t['name']}")
    if "moved_tiny" in cl or "exactly_maxdiff_must_move" in cl:
        cl.add("moved")
    return {"classes": sorted(cl), "nontrivial": "moved" in cl}


# ----------------------------------------------------------------------- morph


def model_morph(S, T, flt, maxT):
    out = []
    prev_src_end = prev_new_end = None
    for (s, e, l), (ts, te, _) in zip(S, T):
        s_, e_ = Fraction(s), Fraction(e)
        dur = (Fraction(te) - Fraction(ts)) if (flt is None or l == flt) else (e_ - s_)
        ns = s_ if prev_new_end is None else prev_new_end + (s_ - prev_src_end)
        ne = ns + dur
        out.append((ns, ne, l))
        prev_src_end, prev_new_end = e_, ne
    new_max = (out[-1][1] + (Fraction(maxT) - Fraction(S[-1][1]))) if out else Fraction(maxT)
    return out, new_max


def run_morph(case):
    p = P()
    A, B, flt = case["tier"], case["target"], case["filter"]
    ta, tb = mk_tier(A), mk_tier(B)
    a0, b0 = snap_tier(ta), snap_tier(tb)
    f = None if flt is None else (lambda lab: lab == flt)
    what = f"morph(filter={flt!r})"
    try:
        with quiet():
            res = ta.morph(tb, f)
    except p.errors.SafeZipException:
        if len(A["entries"]) != len(B["entries"]):
            note_accept("SafeZipException(unequal counts)")
            return {"classes": ["unequal_counts"], "nontrivial": True}
        raise Violation("failed-on-valid-input", f"{what}: SafeZipException with equal counts")
    except p.errors.PraatioException as e:
        if len(A["entries"]) != len(B["entries"]):
            note_accept("praatio error (unequal counts)")
            return {"classes": ["unequal_counts"], "nontrivial": True}
        raise Violation("failed-on-valid-input", f"{what}: {type(e).__name__}: {e} on {A['entries']} -> {B['entries']}")
    if len(A["entries"]) != len(B["entries"]):
        raise Violation("unequal-counts-accepted", f"{what}: {len(A['entries'])} vs {len(B['entries'])} entries")
    if snap_tier(ta) != a0 or snap_tier(tb) != b0:
        raise Violation("operand-mutated", what)
    want, new_max = model_morph(A["entries"], B["entries"], flt, A["maxT"])
    snap = snap_tier(res)
    n = max(1, len(want))
    exact = A.get("style") == "grid"
    ops_ = [A["maxT"], B["maxT"], float(new_max)]
    models.compare_entries(snap["entries"], want, exact, ops_, what, k=8 * n)
    models.cmp_num(snap["maxT"], new_max, exact, ops_, f"{what} maxTimestamp", k=8 * n)
    if snap["minT"] != A["minT"]:
        raise Violation("timestamp-changed", f"{what}: minTimestamp {snap['minT']} != {A['minT']}")
    if A["entries"] and snap["entries"] and snap["entries"][0][0] != A["entries"][0][0]:
        # "preserving ... the first start": the very same number, not one that went through arithmetic
        raise Violation("first-start-changed", f"{what}: first start {snap['entries'][0][0]!r} != {A['entries'][0][0]!r} (minTimestamp {A['minT']})")
    models.check_wellformed(snap, what)
    cl = set()
    if A["minT"] > 0:
        cl.add("source_span_starts_after_0")
    ents = A["entries"]
    if any(x[1] == y[0] for x, y in zip(ents, ents[1:])):
        cl.add("adjacent")
        if not exact:
            cl.add("adjacent_decimal")
    changed = any((flt is None or s[2] == flt) and (Fraction(s[1]) - Fraction(s[0])) != (Fraction(t[1]) - Fraction(t[0]))
                  for s, t in zip(A["entries"], B["entries"]))
    if changed:
        cl.add("duration_changed")
    if any(s[2] == "" and (flt is None) for s in A["entries"]):
        cl.add("empty_label_selected")
    return {"classes": sorted(cl), "nontrivial": changed}


# ------------------------------------------------------------------- generators


def _mvals(style):
    return st.sampled_from([0.125, 0.5, 0.25] if style == "grid" else [0.001, 0.05, 0.125, 0.5])


@st.composite
def ref_for(draw, style, timestamps, m, name="ref"):
    """Reference tier (point or interval) near the given timestamps."""
    if draw(st.integers(0, 14)) == 0:
        return {"type": "point", "name": name, "entries": [], "minT": 0.0, "maxT": 1.0, "style": style}
    vals = set()
    for t in timestamps:
        k = draw(st.sampled_from(["none", "same", "half", "exact", "exact_neg", "over", "both", "none", "tiny", "just_over", "just_under"]))
        if k == "same":
            vals.add(t)
        elif k == "tiny" and t > 0:
            vals.add(t * (1 + 2 ** -36))  # 1.5e-11 relative: far below maxDifference, yet a different number
        elif k == "just_over":
            vals.add(t + m * (1 + 2 ** -32))  # 2e-10 relative beyond maxDifference: more than rounding, so it stays
        elif k == "just_under":
            vals.add(t + m * (1 - 2 ** -32))  # and as much inside: it moves
        elif k == "half":
            vals.add(t + m / 2)
        elif k == "exact":
            vals.add(t + m)
        elif k == "exact_neg" and t - m >= 0:
            vals.add(t - m)
        elif k == "over":
            vals.add(t + m * 1.5)
        elif k == "both" and t - m / 4 >= 0:
            vals.add(t - m / 4)
            vals.add(t + m / 4)
    for t in draw(st.lists(gen.time_of(style), max_size=2)):
        vals.add(t)
    if any(0 < t <= m for t in timestamps) and draw(st.booleans()):
        vals.add(0.0)  # a reference timestamp of exactly 0 within reach of a timestamp that is not 0
    vals = sorted(v for v in vals if v >= 0)
    if draw(st.booleans()) or len(vals) < 2:
        ents_p = [[v, draw(st.sampled_from(["r", "r", ""]))] for v in vals]
        if len(ents_p) >= 2 and draw(st.integers(0, 3)) == 0:
            k = draw(st.integers(1, len(ents_p) - 1))
            ents_p.insert(k + 1, [ents_p[k][0], "r2"])  # two reference points at one instant: one reference timestamp
        return {"type": "point", "name": name, "entries": ents_p, "minT": 0.0,
                "maxT": max(vals + [1.0]), "style": style}
    # (a reference entry without a label is a reference entry: its timestamps count like any other's)
    ents = [[vals[i], vals[i + 1], draw(st.sampled_from(["r", "r", ""]))] for i in range(0, len(vals) - 1, 2)]
    return {"type": "interval", "name": name, "entries": ents, "minT": 0.0, "maxT": max(vals + [1.0]), "style": style}


@st.composite
def dejitter_cases(draw):
    style = draw(gen.STYLES_ARITH)
    spec = draw(st.one_of(gen.interval_tier(style=style, label=gen.ABE), gen.point_tier(style=style, label=gen.ABE)))
    m = draw(_mvals(style))
    ts = sorted({t for e in spec["entries"] for t in e[:-1]})
    return {"tier": spec, "ref": draw(ref_for(style, ts, m)), "m": m,
            "ref_delete": draw(st.one_of(st.none(), st.none(), st.integers(0, 7)))}


@st.composite
def align_cases(draw):
    style = draw(gen.STYLES_ARITH)
    spec = draw(gen.textgrid(style=style, max_tiers=3, label=gen.ABE))
    m = draw(_mvals(style))
    ts = sorted({t for tr in spec["tiers"] for e in tr["entries"] for t in e[:-1]})
    refname = draw(st.sampled_from(["ref", spec["tiers"][0]["name"] + "s", "x" + spec["tiers"][-1]["name"]]))  # another tier's name may be part of it
    ref = draw(ref_for(style, ts, m, name=refname))
    hi = max(spec["maxT"], ref["maxT"])
    ref["minT"], ref["maxT"] = spec["minT"], hi
    for t in spec["tiers"]:
        t["maxT"] = hi
    spec["maxT"] = hi
    pos = draw(st.integers(0, len(spec["tiers"])))
    spec["tiers"].insert(pos, ref)
    return {"tg": spec, "ref": refname, "m": m}


@st.composite
def morph_cases(draw):
    style = draw(gen.STYLES_ARITH)
    A = draw(gen.interval_tier(style=style, label=st.sampled_from(["a", "b", "a", "b", ""]), max_segments=7))
    n = len(A["entries"])
    if draw(st.integers(0, 9)) == 0:
        B = draw(gen.interval_tier(style=style, label=gen.AB, max_segments=7))
    else:
        # target with exactly n intervals
        bs = draw(gen.boundaries(style, 2 * n + 1))
        ents, i = [], 0
        while len(ents) < n and i + 1 < len(bs):
            ents.append([bs[i], bs[i + 1], "t"])
            i += 1 if draw(st.booleans()) else 2
        while len(ents) < n:
            last = ents[-1][1] if ents else 0.0
            ents.append([last, last + 0.5, "t"])
        B = {"type": "interval", "name": "B", "entries": ents, "minT": 0.0, "maxT": max([e[1] for e in ents] + [1.0]), "style": style}
    if A["entries"] and A["entries"][0][0] > 0.1 and draw(st.integers(0, 2)) == 0:
        # a source tier whose span does not begin at 0 (the first start lies well inside it)
        A["minT"] = draw(st.sampled_from([0.1, 0.2, 0.3, 0.7] if style != "grid" else [0.125, 0.25])) if A["entries"][0][0] > 0.7 else A["minT"]
    return {"tier": A, "target": B, "filter": draw(st.sampled_from([None, None, "a", "b"]))}


CHECKS = [
    Check("dejitter", run_dejitter, strategy=lambda tier: dejitter_cases(), quick_n=2000, thorough_n=30000),
    Check("align", run_align, strategy=lambda tier: align_cases(), quick_n=700, thorough_n=10000),
    Check("morph", run_morph, strategy=lambda tier: morph_cases(), quick_n=1500, thorough_n=25000),
]
KNOWN = {}
