"""C17 - interval-driven audio extraction keeps and drops exactly the marked samples."""
from __future__ import annotations

import math
import os
import shutil
import wave
from fractions import Fraction

from hypothesis import strategies as st

from vlib import tgspec
from vlib.pio import P, quiet, tmpdir
from vlib.run import Check, Violation, note_accept
from props.c16 import to_bytes, from_bytes, nearest, sample_values

PROPERTY = "C17"
RULE = (
    "gen: recordings written with the stdlib wave module (width 1/2/4, rates 8..44100, <=400 samples) x lists of disjoint "
    "intervals (touching, at the edges, on and off sample positions; empty delete list) x {keep, delete} x {no replacement, "
    "silence, sine}; both lists / times beyond the duration as error cases; extractSubwav; splitAudioOnTier on generated "
    "multi-tier textgrids (secondary interval/point tiers with and without entries under an interval) x nameStyle x "
    "noPartialIntervals x outputTGFlag in {False, True, tier name}; AudioGenerator x durations. Oracle: list-of-samples model "
    "(on-grid exact: kept samples in order, with replacement same length and kept samples in place; off-grid: runs start at "
    "the nearest index, length within 1); output files re-read with the stdlib wave module and the independent TextGrid "
    "reader. Non-trivial: >=1 interval that does not cover the whole recording."
)
ASSUMPTIONS = [
    "an empty keepIntervals list is 'not specified' (Python default conflation) and is not generated; an empty deleteIntervals list is",
    "labels used as file names are alphanumeric",
    "times whose t*rate is within 1e-6 of a .5 tie are skipped",
]
REQUIRED_CLASSES = ["read_at_times:second_read_on_same_handle", "read_at_times:keep", "read_at_times:delete", "read_at_times:replacement", "read_at_times:offgrid",
                    "read_at_times:rejected_beyond", "split:tg_output", "split:secondary_empty_under_interval", "generators:sine", "generators:exact_half_sample"]


def write_wav(fn, samples, width, rate):
    with wave.open(fn, "w") as w:
        w.setnchannels(1)
        w.setsampwidth(width)
        w.setframerate(rate)
        w.writeframes(to_bytes(samples, width))


def run_read_at_times(case):
    p = P()
    from praatio import audio

    width, rate, samples = case["width"], case["rate"], case["samples"]
    n = len(samples)
    dur = n / rate
    fn = os.path.join(tmpdir(), "c17.wav")
    write_wav(fn, samples, width, rate)
    ivs = [[(k0 + f0) / rate, (k1 + f1) / rate] for (k0, f0), (k1, f1) in case["intervals"]]
    ivs = [[max(0.0, a), b] for a, b in ivs]
    mode, repl = case["mode"], case["replacement"]
    cl = {mode}
    beyond = any(b > dur for a, b in ivs)
    gen_ = audio.AudioGenerator(width, rate)
    rf = None
    if repl == "silence":
        rf = gen_.generateSilence
    elif repl == "sine":
        rf = gen_.buildSineWaveGenerator(3, 5)
    kw = {}
    given = [tuple(x) for x in ivs]
    if case.get("rotate") and len(given) > 1:
        r = case["rotate"] % len(given)
        given = given[r:] + given[:r]  # the caller's list is a list of disjoint intervals in any order
        if r:
            cl.add("intervals_not_in_time_order")
    if mode == "keep":
        kw["keepIntervals"] = list(given)
    elif mode == "delete":
        kw["deleteIntervals"] = list(given)
    else:
        kw["keepIntervals"] = list(given)
        kw["deleteIntervals"] = list(given)
    af = wave.open(fn, "r")
    try:
        try:
            if case.get("warm_up"):
                # the same open file was already read from (the reader owns no position assumptions)
                audio.readFramesAtTimes(af)
                cl.add("second_read_on_same_handle")
            frames = audio.readFramesAtTimes(af, replaceFunc=rf, **kw)
        except p.errors.ArgumentError:
            if mode == "both" and ivs:
                note_accept("ArgumentError(both lists)")
                return {"classes": ["rejected_both"], "nontrivial": True}
            if beyond:
                note_accept("ArgumentError(beyond duration)")
                return {"classes": ["rejected_beyond"], "nontrivial": True}
            raise Violation("rejected-valid-input", f"ArgumentError for {kw} on {n} samples at {rate} Hz")
    finally:
        af.close()
    if mode == "both" and ivs:
        raise Violation("both-lists-accepted", "keepIntervals and deleteIntervals together were accepted")
    if beyond:
        raise Violation("beyond-duration-accepted", f"{kw}: times beyond the duration {dur} were accepted")
    if len(frames) % width:
        raise Violation("split-sample", f"{len(frames)} bytes returned")
    got = from_bytes(frames, width)
    # model
    idx = []
    offgrid = False
    for a, b in ivs:
        i, t0 = nearest(a, rate)
        j, t1 = nearest(b, rate)
        m, t2 = nearest(b - a, rate)
        if t0 or t1 or t2:
            return {"classes": ["skipped_tie"], "nontrivial": False}
        for t in (a, b):
            x = Fraction(t) * rate
            if abs(x - round(x)) > Fraction(1, 10**6):
                offgrid = True
        idx.append((i, j))
    if mode in ("keep", "both"):
        keep = idx
    else:
        keep, cur = [], 0
        for i, j in idx:
            if i > cur:
                keep.append((cur, i))
            cur = max(cur, j)
        if cur < n:
            keep.append((cur, n))
    if offgrid:
        cl.add("offgrid")
        if rf is None:
            # runs start at the nearest index; each run's length within 1 of the model's
            reach = {0}
            for i, j in keep:
                nxt = set()
                for pos in reach:
                    for L in (j - i - 1, j - i, j - i + 1):
                        if L >= 0 and i + L <= n and got[pos:pos + L] == samples[i:i + L] and pos + L <= len(got):
                            nxt.add(pos + L)
                reach = nxt
                if not reach:
                    raise Violation("kept-run-differs", f"{kw}: no run of samples [{i}:{j}] (+-1) at the expected place in the output {got[:12]}..")
            if len(got) not in reach:
                raise Violation("kept-run-differs", f"{kw}: output has {len(got)} samples; the kept runs {keep} account for {sorted(reach)}")
    else:
        want = []
        if rf is None:
            for i, j in keep:
                want += samples[i:j]
        else:
            cl.add("replacement")
            want = [None] * n
            for i, j in keep:
                want[i:j] = samples[i:j]
            if len(got) != n:
                raise Violation("length-not-preserved", f"{kw} with replacement: {len(got)} samples from {n}")
            for q, (g, w) in enumerate(zip(got, want)):
                if w is not None and g != w:
                    raise Violation("kept-sample-moved", f"{kw} with replacement: sample {q} is {g}, original {w}")
                if w is None and repl == "silence" and g != 0:
                    raise Violation("replacement-not-silent", f"{kw}: sample {q} = {g}")
            want = got
        if got != want:
            raise Violation("kept-samples-differ", f"{kw}: got {len(got)} samples {got[:8]}.., expected {len(want)} {want[:8]}..")
    nt = any((i, j) != (0, n) for i, j in idx) and bool(idx)
    return {"classes": sorted(cl), "nontrivial": nt}


# ------------------------------------------------------------------ split / extract


def run_split(case):
    p = P()
    from praatio import audio, praatio_scripts

    width, rate, samples = case["width"], case["rate"], case["samples"]
    n = len(samples)
    d = os.path.join(tmpdir(), "c17split")
    shutil.rmtree(d, ignore_errors=True)
    os.makedirs(d)
    stem = case.get("stem", "rec")
    wavfn = os.path.join(d, stem + ".wav")
    write_wav(wavfn, samples, width, rate)
    dur = n / rate
    # target tier from on-grid index pairs
    case = dict(case, entries=[list(e) for e in case["entries"]])
    if case.get("tiny") and case["entries"][-1][1] <= n - 1:
        case["entries"].append([n - 0.875, n - 0.625, "tiny"])
    ents = [[i / rate, j / rate, lab] for (i, j, lab) in case["entries"]]
    tg = p.Textgrid(0, dur)
    tg.addTier(p.IntervalTier("target", [p.Interval(*e) for e in ents], 0, dur))
    sec = [[i / rate, j / rate, lab] for (i, j, lab) in case["secondary"]]
    tg.addTier(p.IntervalTier("sec", [p.Interval(*e) for e in sec], 0, dur))
    pts = [[i / rate, lab] for (i, lab) in case["points"]]
    tg.addTier(p.PointTier("pts", [p.Point(*e) for e in pts], 0, dur))
    tgfn = os.path.join(d, stem + ".TextGrid")
    with quiet():
        tg.save(tgfn, "long_textgrid", True)
    out = os.path.join(d, "out")
    flag, style, nopartial = case["tgflag"], case["style"], case["nopartial"]
    cl = set()
    what = f"splitAudioOnTier(outputTGFlag={flag!r}, nameStyle={style!r}, noPartialIntervals={nopartial})"
    if case.get("rerun"):
        write_wav(wavfn, [(-x if x else 1) for x in samples], width, rate)
        with quiet():
            praatio_scripts.splitAudioOnTier(wavfn, tgfn, "target", out, flag, style, nopartial)
        write_wav(wavfn, samples, width, rate)
        cl.add("rerun_over_existing_pieces")
    with quiet():
        res = praatio_scripts.splitAudioOnTier(wavfn, tgfn, "target", out, flag, style, nopartial)
    if len(res) != len(ents):
        raise Violation("file-count", f"{what}: {len(res)} results for {len(ents)} entries")
    width_digits = int(math.floor(math.log10(len(ents)))) + 1
    for k, ((i, j, lab), (rs, re_, rname)) in enumerate(zip(case["entries"], res)):
        if style == "append_no_i":
            base = f"{stem}_{lab}"
        elif style == "label":
            base = lab
        else:
            base = stem + "_%0*d" % (width_digits, k)
            if style == "append":
                base += f"_{lab}"
        if rname != base + ".wav":
            raise Violation("file-name", f"{what}: entry {k} named {rname!r}, expected {base + '.wav'!r}")
        fn = os.path.join(out, rname)
        if not os.path.exists(fn):
            raise Violation("file-missing", f"{what}: {rname} not written")
        with wave.open(fn, "r") as wf:
            if (wf.getnchannels(), wf.getsampwidth(), wf.getframerate()) != (1, width, rate):
                raise Violation("file-params", f"{what}: {rname} has parameters {wf.getparams()}")
            got = from_bytes(wf.readframes(wf.getnframes()), width)
        if lab == "tiny":
            cl.add("entry_between_two_sample_positions")
            if got not in ([], [samples[int(i)]]):
                raise Violation("file-samples", f"{what}: {rname} holds {got[:6]}, the interval lies inside sample {int(i)}")
        elif got != samples[i:j]:
            raise Violation("file-samples", f"{what}: {rname} holds {len(got)} samples {got[:6]}.., interval [{i}:{j}] is {samples[i:j][:6]}..")
        tgout = os.path.join(out, base + ".TextGrid")
        if flag is False:
            if os.path.exists(tgout):
                raise Violation("unexpected-textgrid", f"{what}: {tgout} written")
            continue
        cl.add("tg_output")
        if not os.path.exists(tgout):
            raise Violation("textgrid-missing", f"{what}: {base}.TextGrid not written")
        with open(tgout, "rb") as fd:
            data = tgspec.read_text(fd.read().decode("utf-8"))
        length = (Fraction(j) - Fraction(i)) / rate
        if data["xmin"] != 0 or abs(Fraction(data["xmax"]) - length) > Fraction(1, 10**9):
            raise Violation("cropped-span", f"{what}: {base}.TextGrid spans [{data['xmin']},{data['xmax']}], interval length {float(length)}")
        names = [t["name"] for t in data["tiers"]]
        want_names = ["target", "sec", "pts"] if flag is True else [flag]
        if names != want_names:
            raise Violation("cropped-tiers", f"{what}: tiers {names}, expected {want_names}")
        if "target" in names:
            t = data["tiers"][names.index("target")]
            labs = [e[2] for e in t["entries"] if e[2] != ""]
            if labs != [lab]:
                raise Violation("cropped-label", f"{what}: target tier of {base}.TextGrid holds {t['entries']}, expected the label {lab!r}")
        if not any(max(a, i) < min(b, j) for a, b, _ in case["secondary"]):
            cl.add("secondary_empty_under_interval")
    # extractSubwav of a stretch between two sample positions: a file with the source's parameters holding nothing
    # (or the one sample the stretch lies in)
    k0 = case["entries"][0][0]
    if k0 < n:
        fn3 = os.path.join(d, "sub0.wav")
        audio.extractSubwav(wavfn, fn3, (k0 + 0.125) / rate, (k0 + 0.375) / rate)
        if not os.path.exists(fn3):
            raise Violation("file-missing", f"extractSubwav(({k0}+0.125)/{rate}, ({k0}+0.375)/{rate}) wrote no file")
        with wave.open(fn3, "r") as wf:
            if (wf.getnchannels(), wf.getsampwidth(), wf.getframerate()) != (1, width, rate):
                raise Violation("file-params", "extractSubwav changed the parameters (stretch between two sample positions)")
            got = from_bytes(wf.readframes(wf.getnframes()), width)
            if got not in ([], [samples[k0]]):
                raise Violation("file-samples", f"extractSubwav of a stretch inside sample {k0} holds {got[:6]}")
    # extractSubwav on the first entry
    i, j, lab = case["entries"][0]
    fn2 = os.path.join(d, "sub.wav")
    audio.extractSubwav(wavfn, fn2, i / rate, j / rate)
    with wave.open(fn2, "r") as wf:
        if (wf.getnchannels(), wf.getsampwidth(), wf.getframerate()) != (1, width, rate):
            raise Violation("file-params", "extractSubwav changed the parameters")
        if from_bytes(wf.readframes(wf.getnframes()), width) != samples[i:j]:
            raise Violation("file-samples", f"extractSubwav({i}/{rate},{j}/{rate}) does not hold samples [{i}:{j}]")
    shutil.rmtree(d, ignore_errors=True)
    cl.add(f"style_{style}")
    if "." in stem or any("." in e[2] for e in case["entries"]):
        cl.add("dot_in_names")
    return {"classes": sorted(cl), "nontrivial": True}


def run_generators(case):
    from praatio import audio

    width, rate, d = case["width"], case["rate"], case["duration"]
    g = audio.AudioGenerator(width, rate)
    x, tie = nearest(d, rate)
    exact_tie = False
    if tie:
        prod = Fraction(d) * rate
        if prod.denominator == 2 and float(prod) == d * rate:
            # rate*duration is exactly k+0.5 also in floating point: 'round' is Python's round (half to even)
            x = round(float(prod))
            exact_tie = True
        else:
            return {"classes": ["skipped_tie"], "nontrivial": False}
    sil = g.generateSilence(d)
    if len(sil) != x * width or any(sil):
        raise Violation("silence", f"generateSilence({d}) at {rate} Hz width {width}: {len(sil)} bytes, expected {x * width} zero bytes")
    amp = case["amp"]
    sine = g.generateSineWave(d, case["freq"], amp)
    got = from_bytes(sine, width)
    if len(got) != x:
        raise Violation("sine-length", f"generateSineWave({d}) gives {len(got)} samples, expected {x}")
    for i, v in enumerate(got):
        w = amp * math.sin(2 * math.pi * case["freq"] * i / rate)
        if abs(v - w) > 1.0:
            raise Violation("sine-values", f"sample {i} = {v}, expected about {w}")
    f = g.buildSineWaveGenerator(case["freq"], amp)
    if f(d) != sine:
        raise Violation("sine-generator", "buildSineWaveGenerator(f)(d) differs from generateSineWave(d)")
    return {"classes": ["sine", "silence"] + (["exact_half_sample"] if exact_tie else []), "nontrivial": x > 0}


# ------------------------------------------------------------------- generators


@st.composite
def rat_cases(draw):
    width = draw(st.sampled_from([1, 2, 4]))
    rate = draw(st.sampled_from([8, 16, 100, 8000, 44100]))
    n = draw(st.integers(1, 60))
    samples = draw(st.lists(sample_values(width), min_size=n, max_size=n))
    k = draw(st.integers(0, 4))
    cuts = sorted(draw(st.lists(st.integers(0, n + (2 if draw(st.integers(0, 9)) == 0 else 0)), min_size=2 * k, max_size=2 * k)))
    off = draw(st.integers(0, 3)) == 0
    fr = st.sampled_from([0.0, 0.25, -0.25, 0.4, -0.4]) if off else st.just(0.0)
    ivs = []
    fracs = {}
    for c in cuts:  # one offset per distinct cut, so that touching intervals stay disjoint
        if c not in fracs:
            fracs[c] = draw(fr)
    for i in range(k):
        a, b = cuts[2 * i], cuts[2 * i + 1]
        if a == b:
            continue
        ivs.append([[a, fracs[a]], [b, fracs[b]]])
    mode = draw(st.sampled_from(["keep", "delete", "keep", "delete", "both"]))
    if mode in ("keep", "both") and not ivs:
        mode = "delete"
    return {"width": width, "rate": rate, "samples": samples, "intervals": ivs, "mode": mode,
            "replacement": draw(st.sampled_from([None, None, "silence", "sine"])), "warm_up": draw(st.booleans()),
            "rotate": draw(st.sampled_from([0, 0, 1, 2, 3]))}


@st.composite
def split_cases(draw):
    width = draw(st.sampled_from([1, 2, 4]))
    rate = draw(st.sampled_from([100, 1000, 8000, 44100]))
    n = draw(st.integers(20, 200))
    samples = draw(st.lists(st.integers(-100, 100), min_size=n, max_size=n))
    def tier(maxk, labels):
        k = draw(st.integers(1, maxk))
        cuts = sorted(draw(st.lists(st.integers(0, n), min_size=2 * k, max_size=2 * k, unique=True)))
        return [[cuts[2 * i], cuts[2 * i + 1], labels[i]] for i in range(k)]
    entries = tier(4, draw(st.sampled_from([["w0", "w1", "w2", "w3"], ["w0", "w1", "w2", "w3"], ["no.1", "no.2", "no.3", "a.b.c"]])))
    secondary = tier(5, ["s0", "s1", "s2", "s3", "s4"]) if draw(st.booleans()) else []
    pts = [[i, f"p{q}"] for q, i in enumerate(sorted(draw(st.lists(st.integers(0, n), max_size=4, unique=True))))]
    return {"width": width, "rate": rate, "samples": samples, "entries": entries, "secondary": secondary, "points": pts,
            "tgflag": draw(st.sampled_from([False, True, True, "target", "sec"])),
            "style": draw(st.sampled_from([None, "append", "append_no_i", "label"])),
            "nopartial": draw(st.booleans()),
            # an entry lying between two sample positions (it holds no sample position); a second run into a folder
            # that still holds the pieces of an earlier run over other audio
            "tiny": draw(st.integers(0, 2)) == 0, "rerun": draw(st.integers(0, 2)) == 0,
            "stem": draw(st.sampled_from(["rec", "rec", "rec.v2"]))}  # dots in file names and labels are part of the name


@st.composite
def gen_cases(draw):
    width = draw(st.sampled_from([1, 2, 4]))
    rate = draw(st.sampled_from([8, 16, 100, 8000, 16000, 44100]))
    d = draw(st.one_of(st.integers(0, 300).map(lambda k: k / rate), st.floats(0, 0.01), st.sampled_from([0.0, 0.0015, 0.01, 0.1]),
                       st.integers(0, 40).map(lambda k: (k + 0.5) / rate)))
    if d * rate > 2000:
        d = 2000 / rate
    return {"width": width, "rate": rate, "duration": d, "freq": draw(st.sampled_from([1, 3, 200, 440])),
            "amp": draw(st.sampled_from([1, 5, 100, 127]))}


CHECKS = [
    Check("read_at_times", run_read_at_times, strategy=lambda tier: rat_cases(), quick_n=1500, thorough_n=25000),
    Check("split", run_split, strategy=lambda tier: split_cases(), quick_n=250, thorough_n=4000),
    Check("generators", run_generators, strategy=lambda tier: gen_cases(), quick_n=400, thorough_n=6000),
]


def selftest():
    tgspec.selftest()


KNOWN = {}
