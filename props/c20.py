"""C20 - numeric series helpers match their textbook definitions."""
from __future__ import annotations

import itertools
import math
import os
import statistics
from fractions import Fraction

from hypothesis import strategies as st

from vlib.pio import P, quiet, tmpdir
from vlib.run import Check, Violation, note_accept

PROPERTY = "C20"
RULE = (
    "enum: medianFilter on every series of length 0..6 over the values {0,1,2} (ties, constant runs) x window 0..8 x padding; "
    "gen: series of length 0..15 of ints and floats (ties, constant runs, zeros, sub-1 values) x window 0..8 x padding for "
    "medianFilter / filterTimeSeriesData; znormalizeData / znormalizeSpeakerData / znormWindowFilter on series with >=2 distinct "
    "values; rms; getPitchMeasures x medianFilterWindowSize x filterZeroFlag; detectPitchErrors on positive tracks x thresholds in "
    "(0,1] with and without a textgrid to mark; loadTimeSeriesData on generated listings (with/without header, '--undefined--' "
    "in any column, undefinedValue None or a number). Oracle: textbook re-implementations in this module (windowed median with "
    "edge extension, mean/sample-sd, population variance, ratio test, row parser). Non-trivial: series with >=3 elements and "
    ">=2 distinct values (median/znorm/pitch), a listing with an undefined marker (load)."
)
ASSUMPTIONS = [
    "floating-point results are compared with relative tolerance 1e-9 (sums are accumulated in another order)",
    "detectPitchErrors: a pair exactly on the threshold (within 1e-12 relative) may be classified either way",
    "z-normalisation needs >=2 distinct values; windowed z-normalisation is only checked for length and position of zeros",
]
REQUIRED_CLASSES = ["pitch_measures:constant_track", "median_grid:edge_padding", "median_grid:no_padding_edge_untouched", "pitch_measures:zero_filtered",
                    "pitch_measures:sub_one_value", "load:undefined_skipped", "load:undefined_substituted", "pitch_errors:flagged"]


def close(a, b, rel=1e-9):
    return a == b or abs(a - b) <= rel * max(abs(a), abs(b), 1e-300) or abs(a - b) <= 1e-12


def model_median(xs, window, pad):
    off = window // 2
    n = len(xs)
    out = []
    for i in range(n):
        if pad or (i - off >= 0 and i + off < n):
            w = [xs[min(max(j, 0), n - 1)] for j in range(i - off, i + off + 1)]
            out.append(statistics.median(w))
        else:
            out.append(xs[i])
    return out


def run_median(case):
    from praatio.utilities import my_math

    xs, w, pad = case["series"], case["window"], case["pad"]
    before = list(xs)
    got = my_math.medianFilter(xs, w, pad)
    if xs != before:
        raise Violation("input-mutated", "medianFilter changed its input list")
    want = model_median(xs, w, pad)
    if len(got) != len(xs):
        raise Violation("median-length", f"medianFilter({xs},{w},{pad}) has {len(got)} elements")
    if list(got) != want:
        raise Violation("median-values", f"medianFilter({xs},{w},{pad}) = {list(got)}, expected {want}")
    cl = []
    off = w // 2
    if pad and off > 0 and xs:
        cl.append("edge_padding")
    if not pad and off > 0 and xs:
        cl.append("no_padding_edge_untouched")
    return {"classes": cl, "nontrivial": len(xs) >= 3 and len(set(xs)) >= 2 and off > 0}


def enum_median(tier, shard, nshards):
    maxlen = 6 if tier == "quick" else 8
    i = 0
    for n in range(0, maxlen + 1):
        for xs in itertools.product([0, 1, 2], repeat=n):
            i += 1
            if i % nshards != shard:
                continue
            for w in range(0, 9):
                for pad in (False, True):
                    yield {"series": list(xs), "window": w, "pad": pad}


def run_filter_rows(case):
    from praatio.utilities import my_math

    rows, idx, w, pad = case["rows"], case["index"], case["window"], case["pad"]
    data = [tuple(r) for r in rows]
    got = my_math.filterTimeSeriesData(my_math.medianFilter, data, w, idx, pad)
    if len(got) != len(rows):
        raise Violation("filter-row-count", f"{len(got)} rows from {len(rows)}")
    col = model_median([r[idx] for r in rows], w, pad)
    for g, r, c in zip(got, rows, col):
        want = list(r)
        want[idx] = c
        if list(g) != want:
            raise Violation("filter-rows", f"row {r} became {list(g)}, expected {want}")
    times = [r[0] for r in rows]
    cl = ["rows"] + (["rows_not_in_strictly_increasing_time_order"] if any(a >= b for a, b in zip(times, times[1:])) else [])
    return {"classes": cl, "nontrivial": len(rows) >= 3}


def run_znorm(case):
    from praatio.utilities import my_math

    xs = case["series"]
    if len(set(xs)) < 2:
        return {"classes": ["skipped_constant"], "nontrivial": False}
    got = my_math.znormalizeData(list(xs))
    if len(got) != len(xs):
        raise Violation("znorm-length", f"{len(got)} from {len(xs)}")
    m = statistics.mean(xs)
    sd = statistics.stdev(xs)
    scale = max(abs(v) for v in xs) / sd
    for g, v in zip(got, xs):
        if not abs(g - (v - m) / sd) <= 1e-9 * max(1.0, scale):
            raise Violation("znorm-values", f"znormalizeData({xs}): {g} for {v}, expected {(v - m) / sd}")
    if abs(statistics.mean(got)) > 1e-9 * max(1.0, scale) or abs(statistics.stdev(got) - 1) > 1e-9 * max(1.0, scale):
        raise Violation("znorm-moments", f"znormalizeData({xs}): mean {statistics.mean(got)}, sd {statistics.stdev(got)}")
    order_in = sorted(range(len(xs)), key=lambda i: (xs[i], i))
    for a, b in zip(order_in, order_in[1:]):
        if xs[a] < xs[b] and not got[a] <= got[b]:
            raise Violation("znorm-rank", f"rank order changed: {xs} -> {got}")
    # speaker data wrapper keeps rows
    rows = [(float(i), v, 7.0) for i, v in enumerate(xs)]
    out = my_math.znormalizeSpeakerData(rows, 1, False)
    if len(out) != len(rows) or any(o[0] != r[0] or o[2] != r[2] for o, r in zip(out, rows)):
        raise Violation("filter-rows", "znormalizeSpeakerData changed the number/order/other columns of rows")
    if any(not close(o[1], g) for o, g in zip(out, got)):
        raise Violation("znorm-values", "znormalizeSpeakerData(filterZeroValues=False) differs from znormalizeData")
    out2 = my_math.znormalizeSpeakerData(rows, 1, True)
    if len(out2) != len(rows) or any(o[0] != r[0] for o, r in zip(out2, rows)):
        raise Violation("filter-rows", "znormalizeSpeakerData(filterZeroValues=True) changed the number/order of rows")
    # windowed variant: length and zero positions
    if len(xs) >= 5 and all(v >= 0 for v in xs):
        try:
            wz = my_math.znormWindowFilter(list(xs), 5, True, True)
        except (statistics.StatisticsError, ZeroDivisionError):
            note_accept("znormWindowFilter: degenerate window")
        else:
            if len(wz) != len(xs):
                raise Violation("filter-row-count", f"znormWindowFilter returned {len(wz)} values for {len(xs)}")
    return {"classes": ["znorm"] + (["spread_below_1e-9"] if sd < 1e-9 else []), "nontrivial": len(xs) >= 3}


def run_rms(case):
    from praatio.utilities import my_math

    xs = case["series"]
    if not xs:
        return {"classes": ["empty"], "nontrivial": False}
    got = my_math.rms(list(xs))
    want = math.sqrt(float(sum(Fraction(v) ** 2 for v in xs) / len(xs)))
    if not close(got, want):
        raise Violation("rms", f"rms({xs}) = {got}, expected {want}")
    cl = ["rms"] + (["no_positive_value"] if max(xs) <= 0 and min(xs) < 0 else []) + (["tiny_magnitude"] if 0 < max(abs(v) for v in xs) < 1e-6 else [])
    return {"classes": cl, "nontrivial": len(set(xs)) >= 2}


def run_pitch_measures(case):
    from praatio import pitch_and_intensity as pi

    xs, w, fz = case["series"], case["window"], case["filter_zero"]
    with quiet():
        got = pi.getPitchMeasures(list(xs), "n", "l", w, fz)
    vals = list(xs)
    if w is not None:
        vals = model_median(vals, w, True)
    cl = set()
    if fz:
        if any(v == 0 for v in vals):
            cl.add("zero_filtered")
        if any(0 < abs(v) < 1 for v in vals):
            cl.add("sub_one_value")
        vals = [v for v in vals if v != 0]
    if len(vals) >= 2 and max(vals) - min(vals) <= 1e-8:
        cl.add("constant_track")
    if not vals:
        want = (0.0,) * 6
    else:
        n = len(vals)
        mean = float(sum(Fraction(v) for v in vals) / n)
        var = float(sum((Fraction(v) - Fraction(mean)) ** 2 for v in vals) / n)
        want = (mean, max(vals), min(vals), max(vals) - min(vals), var, math.sqrt(var))
    names = ["mean", "max", "min", "range", "variance", "std"]
    if len(got) != 6:
        raise Violation("pitch-measures", f"{len(got)} fields")
    for nm, g, wv in zip(names, got, want):
        if not close(g, wv, 1e-7):
            raise Violation(f"pitch-measures:{nm}", f"getPitchMeasures({xs}, median={w}, filterZero={fz}): {nm} = {g}, expected {wv} (all: {got} vs {want})")
    return {"classes": sorted(cl), "nontrivial": len(xs) >= 3 and len(set(xs)) >= 2}


def run_pitch_errors(case):
    p = P()
    from praatio import pitch_and_intensity as pi

    track, thr = [tuple(r) for r in case["track"]], case["threshold"]
    tg = None
    if case["mark"]:
        tg = p.Textgrid(0, 100.0)
        tg.addTier(p.IntervalTier("x", [p.Interval(0.0, 1.0, "a")], 0, 100.0))
    errs, out_tg = pi.detectPitchErrors(track, thr, tg)
    flagged = {e[0] for e in errs}
    cl = set()
    for (t0, p0), (t1, p1) in zip(track, track[1:]):
        lo, hi = Fraction(p1) * Fraction(thr), Fraction(p1) / Fraction(thr)
        x = Fraction(p0)
        border = any(abs(x - b) <= Fraction(1, 10**12) * abs(b) for b in (lo, hi))
        must = x < lo or x > hi
        if border:
            continue
        if must and t1 not in flagged:
            raise Violation("pitch-errors-missed", f"jump {p0} -> {p1} at {t1} (threshold {thr}) not flagged")
        if not must and t1 in flagged:
            raise Violation("pitch-errors-spurious", f"{p0} -> {p1} at {t1} (threshold {thr}) flagged")
        if must:
            cl.add("flagged")
    for e in errs:
        if e[0] not in {t for t, _ in track[1:]}:
            raise Violation("pitch-errors-spurious", f"flagged time {e[0]} is not a sample time")
    if case["mark"]:
        if out_tg is not tg or len(out_tg.tierNames) != 2:
            raise Violation("pitch-errors-tg", "the marked textgrid was not returned with one extra tier")
        marks = out_tg.tiers[1].entries
        if sorted(m[0] for m in marks) != sorted(flagged):
            raise Violation("pitch-errors-tg", f"marked points {marks} != flagged times {sorted(flagged)}")
        try:
            pi.detectPitchErrors(track, thr, out_tg)
        except p.errors.ArgumentError:
            note_accept("ArgumentError(tier exists)")
        else:
            raise Violation("pitch-errors-tg", "marking the same textgrid twice was accepted")
    elif out_tg is not None:
        raise Violation("pitch-errors-tg", "a textgrid was returned although none was given")
    return {"classes": sorted(cl), "nontrivial": len(track) >= 3}


def run_load(case):
    from praatio import pitch_and_intensity as pi

    rows, header, undef = case["rows"], case["header"], case["undefined_value"]
    lines = []
    if header:
        lines.append(",".join(["time"] + [f"v{i}" for i in range(len(rows[0]) - 1)]) if rows else "time,v0")
    for r in rows:
        lines.append(",".join("--undefined--" if x is None else repr(x) for x in r))
    if case["blank_lines"]:
        lines.insert(len(lines) // 2, "")
    fn = os.path.join(tmpdir(), "c20.txt")
    with open(fn, "w", encoding="utf-8") as fd:
        fd.write("\n".join(lines) + ("\n" if case["trailing_newline"] else ""))
    if not rows and not header:
        return {"classes": ["skipped_empty_file"], "nontrivial": False}
    got = pi.loadTimeSeriesData(fn, undef)
    want = []
    cl = set()
    for r in rows:
        if any(x is None for x in r[1:]):
            if undef is None:
                cl.add("undefined_skipped")
                continue
            cl.add("undefined_substituted")
        want.append(tuple([float(r[0])] + [undef if x is None else float(x) for x in r[1:]]))
    if [tuple(g) for g in got] != want:
        raise Violation("load-rows", f"loadTimeSeriesData(undefinedValue={undef}) = {got}, expected {want} for {lines}")
    return {"classes": sorted(cl), "nontrivial": bool(cl)}


# ------------------------------------------------------------------- generators

VALS = st.one_of(st.integers(-5, 300), st.sampled_from([0, 0, 1, 2, 100, 100.5, 0.5, 0.25, 99.9]),
                 st.floats(-10, 500, allow_nan=False).map(lambda x: round(x, 3)))
POS = st.one_of(st.integers(1, 400), st.floats(0.5, 500, allow_nan=False).map(lambda x: round(x, 2)), st.sampled_from([100, 200, 50, 70.0]))


@st.composite
def series(draw, vals=VALS, max_n=15):
    n = draw(st.integers(0, max_n))
    xs = draw(st.lists(vals, min_size=n, max_size=n))
    if xs and draw(st.integers(0, 3)) == 0:  # constant runs
        i = draw(st.integers(0, len(xs) - 1))
        xs[i:i + 3] = [xs[i]] * len(xs[i:i + 3])
    return xs


@st.composite
def scaled_series(draw):
    """series() times a common factor: all-negative series, very small and very large magnitudes."""
    xs = draw(series())
    k = draw(st.sampled_from([1, 1, 1, -1, -1, 1e-10, -1e-10, 1e6, 3e-9, 1e-13, -1e-13]))
    if k != 1 and draw(st.booleans()):
        xs = [abs(v) for v in xs]  # one sign throughout
    return [v * k for v in xs] if k != 1 else xs


def median_cases():
    return st.builds(lambda s, w, p: {"series": s, "window": w, "pad": p}, series(), st.integers(0, 8), st.booleans())


@st.composite
def row_cases(draw):
    xs = draw(series())
    rows = [[float(i), v, -1.0] for i, v in enumerate(xs)]
    r = draw(st.integers(0, 3))
    if r == 0:
        rows = [[float(i // 2), v, -1.0] for i, v in enumerate(xs)]  # pairs of rows with one timestamp (whatever their values)
    elif r == 1 and rows:
        rows = draw(st.permutations(rows))  # rows are filtered in the order given, not in order of time
    return {"rows": [list(x) for x in rows], "index": 1, "window": draw(st.integers(0, 8)), "pad": draw(st.booleans())}


@st.composite
def pm_cases(draw):
    xs = draw(series(st.one_of(st.sampled_from([0, 0, 0.0, 100, 120.5, 0.5, 0.9, 1, 250]), st.integers(0, 400),
                               st.floats(0, 500, allow_nan=False).map(lambda x: round(x, 2)))))
    if draw(st.integers(0, 5)) == 0:
        # a constant (or almost constant) track of a non-dyadic value: variance 0 / tiny, never negative
        v = draw(st.sampled_from([0.1, 100.1, 0.7, 220.1, 187.3, 33.3, 99.99]))
        xs = [v] * draw(st.integers(2, 9))
        if draw(st.booleans()):
            xs[-1] = v + 1e-9
    if xs and draw(st.integers(0, 5)) == 0:
        # values that are tiny but not zero stay in when zeros are removed
        xs = [draw(st.sampled_from([2.5e-7, -3e-7, 1e-9])) if (v == 0 and i % 2 == 0) or i == 0 else v for i, v in enumerate(xs)]
    if xs and draw(st.integers(0, 4)) == 0:
        # values below zero (semitones re a reference, z-scores): "values of zero are removed" removes zeros, nothing else
        xs = [(-v if i % 2 else v) for i, v in enumerate(xs)]
    return {"series": xs, "window": draw(st.sampled_from([None, None, 0, 1, 3, 5, 4])), "filter_zero": draw(st.booleans())}


@st.composite
def pe_cases(draw):
    n = draw(st.integers(0, 10))
    ps = draw(st.lists(POS, min_size=n, max_size=n))
    if n >= 2 and draw(st.booleans()):
        i = draw(st.integers(1, n - 1))
        ps[i] = ps[i - 1] * draw(st.sampled_from([2, 0.5, 1.4, 0.7, 3]))
    if n >= 2 and draw(st.integers(0, 5)) == 0:
        ps[-1] = draw(st.sampled_from([0, 0.0]))  # the track ends in an unvoiced (0 Hz) sample: a drop like any other
    track = [[round(0.01 * (i + 1), 2), v] for i, v in enumerate(ps)]
    return {"track": track, "threshold": draw(st.sampled_from([0.7, 0.7, 0.5, 0.9, 1.0, 0.25, 0.99])), "mark": draw(st.booleans())}


@st.composite
def load_cases(draw):
    ncol = draw(st.integers(1, 3))
    n = draw(st.integers(0, 8))
    cell = st.one_of(st.none(), VALS.map(float), VALS.map(float), VALS.map(float),
                     st.sampled_from([1e-05, 3.0517578125e-05, 2.5e+20, -4e-07, 1e+16]))
    rows = [[round(0.01 * i, 2)] + [draw(cell) for _ in range(ncol)] for i in range(n)]
    if rows and draw(st.integers(0, 3)) == 0:
        # the same line twice (a sample repeated at a seam, a constant stretch with a repeated time): two rows
        k = draw(st.integers(0, len(rows) - 1))
        rows.insert(draw(st.integers(k, len(rows))), list(rows[k]))
    return {"rows": rows, "header": draw(st.booleans()), "undefined_value": draw(st.sampled_from([None, None, 0.0, -1.0, 0])),
            "blank_lines": draw(st.booleans()), "trailing_newline": draw(st.booleans())}


CHECKS = [
    Check("median_grid", run_median, kind="enum", enum=enum_median, exhaustive=True, distinct_by_construction=True,
          doc="all series of length <=6 (8) over {0,1,2} x window 0..8 x padding"),
    Check("median_random", run_median, strategy=lambda tier: median_cases(), quick_n=600, thorough_n=10000),
    Check("filter_rows", run_filter_rows, strategy=lambda tier: row_cases(), quick_n=300, thorough_n=5000),
    Check("znorm", run_znorm, strategy=lambda tier: st.builds(lambda s: {"series": s}, scaled_series()), quick_n=500, thorough_n=8000),
    Check("rms", run_rms, strategy=lambda tier: st.builds(lambda s: {"series": s}, scaled_series()), quick_n=300, thorough_n=5000),
    Check("pitch_measures", run_pitch_measures, strategy=lambda tier: pm_cases(), quick_n=800, thorough_n=12000),
    Check("pitch_errors", run_pitch_errors, strategy=lambda tier: pe_cases(), quick_n=600, thorough_n=10000),
    Check("load", run_load, strategy=lambda tier: load_cases(), quick_n=600, thorough_n=10000),
]
KNOWN = {}
