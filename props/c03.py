"""C03 - the reader returns exactly what a spec-conformant TextGrid file encodes."""
from __future__ import annotations

import copy

from hypothesis import strategies as st

from vlib import gen, iomodel, tgspec
from vlib.pio import P, quiet
from vlib.run import Check, Violation, note_accept

PROPERTY = "C03"
RULE = (
    "gen: tier data as in C01 (plus duplicate tier names, blank-labelled intervals, empty tiers, tiers whose span differs from "
    "the file's) rendered by the independent writers of vlib/tgspec.py in layout {long (Praat), long (ELAN punctuation), short, "
    "json, textgrid_json} with number style {shortest repr, integers bare, 17 significant digits, exponent notation} and '-0' "
    "start times; bytes in {utf-8, utf-8-sig, utf-16-le+BOM, utf-16-be+BOM} (JSON: utf-8) x {LF, CRLF}; then "
    "openTextgrid(path, includeEmptyIntervals, 'silence', duplicateNamesMode). Oracle: the result equals the generating data "
    "exactly (bit-for-bit timestamps since the writer controls the digits); includeEmptyIntervals=False removes exactly the "
    "empty-labelled entries; long/ELAN/short renderings open to identical textgrids; duplicates raise DuplicateTierName or "
    "are renamed to unique names in file order. Non-trivial: >=1 entry and (a label/name with quote/newline/digit/non-ASCII/"
    "token, a tiny/near-integer/large timestamp, a non-default encoding/newline/layout/number style, or a duplicate name)."
)
ASSUMPTIONS = [
    "labels and names in the generated files are trimmed (the library documents that it normalises surrounding whitespace) and contain no CR",
    "JSON files are UTF-8 without BOM (RFC 8259) or BOM-marked UTF-16 (which the reader's encoding detection covers)",
    "Python's 'utf-16' codec needs the BOM the statement requires",
]
REQUIRED_CLASSES = ["reader:utf-16-json", "reader:utf-16", "reader:crlf", "reader:elan", "reader:exp_numbers", "reader:neg_zero",
                    "reader:duplicate_renamed", "reader:duplicate_error", "reader:blank_removed"]

LAYOUTS = ["long", "elan", "short", "json", "textgrid_json"]


def render(data, layout, num, neg_zero):
    if layout == "long":
        return tgspec.write_long(data, "praat", num, neg_zero)
    if layout == "elan":
        return tgspec.write_long(data, "elan", num, neg_zero)
    if layout == "short":
        return tgspec.write_short(data, num, neg_zero)
    return tgspec.write_json(data, layout)


def to_bytes(text, enc, crlf):
    if crlf:
        text = text.replace("\n", "\r\n")
    if enc == "utf-8":
        return text.encode("utf-8")
    if enc == "utf-8-sig":
        return b"\xef\xbb\xbf" + text.encode("utf-8")
    if enc == "utf-16-le":
        return b"\xff\xfe" + text.encode("utf-16-le")
    return b"\xfe\xff" + text.encode("utf-16-be")


def expected(data, layout, include_empty, dup_mode):
    """-> ('dup-error',) | ('ok', data)"""
    want = copy.deepcopy(data)
    names = [t["name"] for t in want["tiers"]]
    has_dup = len(set(names)) != len(names)
    if layout == "json" and has_dup:
        return ("skip",)  # a JSON object cannot carry duplicate keys
    if has_dup and dup_mode == "error":
        return ("dup-error",)
    for t in want["tiers"]:
        if not include_empty:
            t["entries"] = [e for e in t["entries"] if e[-1] != ""]
        if layout == "json":
            t["xmin"], t["xmax"] = want["xmin"], want["xmax"]
    return ("ok", want)


def check_names(got_names, want_names, what):
    """Duplicates renamed to unique names in file order.  Which tier ends up with which name is only pinned
    where it is unambiguous: the first tier carrying a name keeps it unless that name can also be produced by
    renaming another tier (a literal 'a_2' next to two tiers 'a'); every result name extends its original."""
    if len(got_names) != len(want_names):
        raise Violation("tier-count", f"{what}: {got_names} from {want_names}")
    if len(set(got_names)) != len(got_names):
        raise Violation("names", f"{what}: names not unique after renaming: {got_names}")
    seen = set()
    for i, (g, w) in enumerate(zip(got_names, want_names)):
        if not g.startswith(w):
            raise Violation("names", f"{what}: tier {w!r} came back as {g!r}")
        ambiguous = any(j != i and o != w and w.startswith(o) for j, o in enumerate(want_names))
        if w not in seen:
            if g != w and not ambiguous:
                raise Violation("names", f"{what}: first occurrence of {w!r} came back as {g!r}")
        elif g == w:
            raise Violation("names", f"{what}: duplicate of {w!r} kept its name: {got_names}")
        seen.add(w)


def run_case(case):
    p = P()
    data = case["data"]
    layout, num, nz = case["layout"], case["num"], case["neg_zero"]
    enc, crlf = case["enc"], case["crlf"]
    ie, dup = case["include_empty"], case["dup_mode"]
    if layout in ("json", "textgrid_json"):
        crlf = False
        if enc == "utf-8-sig":
            enc = "utf-8"  # RFC 8259: a JSON text must not start with a UTF-8 byte order mark
    status = expected(data, layout, ie, dup)
    if status[0] == "skip":
        return {"classes": ["skip_json_duplicate_keys"], "nontrivial": False}
    text = render(data, layout, num, nz)
    raw = to_bytes(text, enc, crlf)
    what = f"open({layout}, num={num}, -0={nz}, {enc}, crlf={crlf}, includeEmpty={ie}, dup={dup})"
    cl = set()
    names = [t["name"] for t in data["tiers"]]
    has_dup = len(set(names)) != len(names)
    try:
        tg = iomodel.open_bytes(raw, ie, dup)
    except p.errors.DuplicateTierName:
        if status[0] == "dup-error":
            note_accept("DuplicateTierName")
            return {"classes": ["duplicate_error"], "nontrivial": True}
        raise Violation(f"spurious-duplicate-error:{layout}", f"{what}: names {names}")
    except Exception as e:  # noqa
        if status[0] == "dup-error":
            # the reader may legitimately fail earlier only with DuplicateTierName
            pass
        raise Violation(f"open-failed:{layout}:{type(e).__name__}", f"{what}: {type(e).__name__}: {e}; text={text[:300]!r}")
    if status[0] == "dup-error":
        raise Violation(f"duplicate-accepted:{layout}", f"{what}: duplicate names {names} opened without DuplicateTierName")
    want = status[1]
    got = iomodel.tg_to_data(tg)
    if has_dup:
        try:
            check_names([t["name"] for t in got["tiers"]], names, what)
        except Violation as v:
            raise Violation(f"{v.clause}:{layout}", v.message)
        cl.add("duplicate_renamed")
        for g, w in zip(got["tiers"], want["tiers"]):
            w["name"] = g["name"]
    try:
        iomodel.compare_data(got, want, what, exact=True)
    except Violation as v:
        raise Violation(f"{v.clause}:{layout}", v.message)
    # every tier obtained by opening a file is well-formed (C05's "from opening a file")
    from vlib import models
    from vlib.pio import snap_tier

    for t in tg.tiers:
        models.check_wellformed(snap_tier(t), f"{what}: tier {t.name!r}")
        with quiet():
            if t.validate("silence") is not True:
                raise Violation(f"opened-tier-invalid:{layout}", f"{what}: tier {t.name!r} does not validate")
    # classes
    if enc.startswith("utf-16"):
        cl.add("utf-16")
        if layout in ("json", "textgrid_json"):
            cl.add("utf-16-json")
    if enc == "utf-8-sig":
        cl.add("utf-8-sig")
    if crlf:
        cl.add("crlf")
    cl.add(layout)
    if num == "exp" and layout not in ("json", "textgrid_json"):
        cl.add("exp_numbers")
    if nz and layout not in ("json", "textgrid_json"):
        cl.add("neg_zero")
    if not ie and any(e[-1] == "" for t in data["tiers"] for e in t["entries"]):
        cl.add("blank_removed")
    nt = any(t["entries"] for t in data["tiers"])
    return {"classes": sorted(cl), "nontrivial": nt}


def run_layouts_agree(case):
    """long / ELAN / short renderings of one datum open to identical textgrids."""
    data = case["data"]
    names = [t["name"] for t in data["tiers"]]
    if len(set(names)) != len(names):
        return {"classes": ["skip_dup"], "nontrivial": False}
    snaps = {}
    for layout in ("long", "elan", "short"):
        text = render(data, layout, case["num"], case["neg_zero"])
        try:
            tg = iomodel.open_bytes(text.encode("utf-8"), case["include_empty"], "error")
        except Exception as e:  # noqa
            raise Violation(f"open-failed:{layout}:{type(e).__name__}", f"layout {layout}: {type(e).__name__}: {e}; text={text[:300]!r}")
        snaps[layout] = iomodel.tg_to_data(tg)
    if not (snaps["long"] == snaps["elan"] == snaps["short"]):
        raise Violation("layouts-disagree:long", f"long {snaps['long']} elan {snaps['elan']} short {snaps['short']}")
    cl = ["agree"]
    if any(e[-1] != "" and e[-1].strip() == "" for t in data["tiers"] for e in t["entries"]):
        cl.append("white_space_only_label")
    return {"classes": cl, "nontrivial": any(t["entries"] for t in data["tiers"])}


@st.composite
def cases(draw):
    clean = draw(st.integers(0, 4)) > 0
    uniq = draw(st.integers(0, 5)) > 0
    spec = draw(gen.io_textgrid(clean=clean, unique_names=uniq, rich=draw(st.integers(0, 3)) > 0 or not uniq))
    if not uniq and len(spec["tiers"]) > 1 and draw(st.booleans()):
        spec["tiers"][-1]["name"] = spec["tiers"][0]["name"]
        if len(spec["tiers"]) > 2 and draw(st.booleans()):
            # a tier literally named like the name the renaming would generate
            spec["tiers"][draw(st.integers(1, len(spec["tiers"]) - 2))]["name"] = spec["tiers"][0]["name"] + "_2"
    data = iomodel.spec_to_data(spec)
    return {
        "data": data,
        "layout": draw(st.sampled_from(LAYOUTS)),
        "num": draw(st.sampled_from(["repr", "praat", "int", "17", "exp"])),
        "neg_zero": draw(st.integers(0, 3)) == 0,
        "enc": draw(st.sampled_from(["utf-8", "utf-8", "utf-8-sig", "utf-16-le", "utf-16-be"])),
        "crlf": draw(st.booleans()),
        "include_empty": draw(st.booleans()),
        "dup_mode": draw(st.sampled_from(["error", "rename"])),
    }


@st.composite
def agree_cases(draw):
    """As cases(); in addition some labels consist of white space only. Whether such a label counts as empty is not
    pinned by the statement (the text readers trim it and then treat it as empty, the JSON reader keeps it), so the
    'reader' check does not generate them - but the long and the short reading of one datum must still agree."""
    case = draw(cases())
    if draw(st.integers(0, 2)) == 0:
        for t in case["data"]["tiers"]:
            t["entries"] = [tuple(list(e[:-1]) + [draw(st.sampled_from([" ", "\n", " \t", "  "]))]) if draw(st.integers(0, 2)) == 0 else e
                            for e in t["entries"]]
    return case


def _known_keyword(check, case, v):
    for layout, parser in (("long", "long"), ("elan", "long"), ("short", "short")):
        if f":{layout}" in v.clause and iomodel.reader_confusion(case["data"], parser):
            if check == "layouts_agree" or case.get("layout") == layout:
                return True
    if check == "layouts_agree" and "layouts-disagree" in v.clause:
        return bool(iomodel.reader_confusion(case["data"], "long") or iomodel.reader_confusion(case["data"], "short"))
    return False


CHECKS = [
    Check("reader", run_case, strategy=lambda tier: cases(), quick_n=1800, thorough_n=12000, fuzz_runs=20000),
    Check("layouts_agree", run_layouts_agree, strategy=lambda tier: agree_cases(), quick_n=400, thorough_n=3000),
]


def selftest():
    tgspec.selftest()


KNOWN = {"C03-keyword-in-text": _known_keyword}
