"""C18 - zero-crossing search finds real crossings; splicing keeps audio and text in step."""
from __future__ import annotations

import math
import os
from fractions import Fraction

from hypothesis import strategies as st

from vlib.pio import P, quiet, snap_tg, snap_tier, tmpdir
from vlib.run import Check, Violation, note_accept
from props.c16 import to_bytes, from_bytes, nearest

PROPERTY = "C18"
RULE = (
    "gen: short recordings (random, all-positive, all-zero, sparse-zero, single-crossing, sine; width 1/2/4; rates 100..44100; "
    "<=400 samples) x target times on sample positions (and arbitrary times, for termination and range) x timeStep values of at "
    "least two samples incl. non-integral multiples of the sample period (and <2 samples as the error case); textgrids with "
    "interval and point tiers over sine recordings for tgBoundariesToZeroCrossings; audioSplice over generated textgrids x "
    "insertion points x optional replaced region x alignToZeroCrossing. Oracle (validity predicate): a returned time lies in "
    "[0,duration], is on a sample position when the target is, and the sample there is 0 or differs in sign from a neighbour; "
    "only ArgumentError / FindZeroCrossingError may be raised; tgBoundaries keeps tier order, entry counts and labels; splice: "
    "|audio duration - textgrid end| <= 1/rate, exactly one new interval with the label over the inserted stretch, entries "
    "ending before the edit unchanged, later labels preserved in order. Non-trivial: a crossing was returned for a recording "
    "that is not all-zero / the splice returned."
)
ASSUMPTIONS = [
    "targets outside [0, duration] are only given to the in-memory Wav: the file-backed QueryWav hands them to wave.setpos, which "
    "refuses them with wave.Error (a rejection, not a wrong result); inside the recording both readers are searched",
    "completeness of the crossing search is not asserted (the statement constrains returned values only)",
    "audioSplice with alignToZeroCrossing=True: any praatio error is a rejection (crossing search / boundary shift are documented as unchecked)",
    "audioSplice without alignment: the only accepted rejection is a praatio error when an interval of the target tier straddles the insertion point",
]
REQUIRED_CLASSES = ["splice:second_splice_beyond_original_duration", "splice:coinciding_points", "splice:point_on_insertion_time", "search_edit_search:search_edit_search", "zero_crossing:returned_sign_change", "zero_crossing:returned_zero_sample", "zero_crossing:not_found",
                    "zero_crossing:step_too_small", "zero_crossing:nonintegral_step", "splice:returned_aligned",
                    "splice:returned_unaligned", "splice:replaced_region", "tg_boundaries:returned"]


def sign(x):
    return (x > 0) - (x < 0)


def is_crossing(samples, idx):
    if idx < 0 or idx >= len(samples):
        # the end of the recording (index n) is judged by the last sample
        if idx == len(samples) and samples:
            idx = len(samples) - 1
        else:
            return False
    if samples[idx] == 0:
        return True
    for j in (idx - 1, idx + 1):
        if 0 <= j < len(samples) and sign(samples[j]) != sign(samples[idx]):
            return True
    return False


def check_crossing_value(r, samples, rate, target_on_grid, what):
    n = len(samples)
    dur = n / rate
    if not (0 <= r <= dur):
        raise Violation("crossing-out-of-range", f"{what}: returned {r!r}, duration {dur}")
    x = Fraction(r) * rate
    idx = round(x)
    if target_on_grid and abs(x - idx) > Fraction(1, 10**6):
        raise Violation("crossing-off-grid", f"{what}: returned {r!r} = sample {float(x)} for a target on a sample position")
    if not is_crossing(samples, idx):
        lo = max(0, idx - 2)
        raise Violation("not-a-crossing", f"{what}: returned {r!r} (sample {idx}); samples[{lo}:{idx+3}] = {samples[lo:idx+3]}")
    return idx


class _Deadline:
    """'always terminates': a search on a recording of a few hundred samples takes milliseconds; one that is still running
    after LIMIT seconds (a factor of >1000) is reported as not terminating. SIGALRM, so main thread only (which is where
    checks run, also in the forked shard workers)."""
    LIMIT = 30.0

    def __init__(self, what):
        self.what = what

    def _fire(self, signum, frame):
        raise Violation("does-not-terminate", f"{self.what}: still running after {self.LIMIT} s")

    def __enter__(self):
        import signal
        self.old = signal.signal(signal.SIGALRM, self._fire)
        signal.setitimer(signal.ITIMER_REAL, self.LIMIT)
        return self

    def __exit__(self, *a):
        import signal
        signal.setitimer(signal.ITIMER_REAL, 0)
        signal.signal(signal.SIGALRM, self.old)
        return False


def mk_wav(samples, width, rate):
    from praatio import audio

    return audio.Wav(to_bytes(samples, width), [1, width, rate, len(samples), "NONE", "not compressed"])


def run_zero_crossing(case):
    p = P()
    width, rate, samples = case["width"], case["rate"], case["samples"]
    wav = mk_wav(samples, width, rate)
    n = len(samples)
    k, f = case["target"]
    t = min(max((k % (n + 1) + f) / rate, 0.0), n / rate)
    on_grid = f == 0
    cl = set()
    if case.get("outside") == "before" and k % (n + 1) > 0:
        t = -(k % (n + 1) + f) / rate  # arbitrary target times: termination and range still hold
        cl.add("target_before_0")
    elif case.get("outside") == "after":
        t = (n + k % (n + 1) + f) / rate
        cl.add("target_after_end")
    if case.get("backend") == "query" and not (cl & {"target_before_0", "target_after_end"}):
        # the same search on the file-backed reader
        from praatio import audio
        fn = os.path.join(tmpdir(), "c18q.wav")
        wav.save(fn)
        wav = audio.QueryWav(fn)
        cl.add("query_wav")
    step = case["step_samples"] / rate
    what = f"findNearestZeroCrossing({t!r}, timeStep={step!r}) on {n} samples at {rate} Hz" + (" (QueryWav)" if "query_wav" in cl else "")
    frames_before = getattr(wav, "frames", None)
    try:
        try:
            with _Deadline(what):
                r = wav.findNearestZeroCrossing(t, step)
        finally:
            if "query_wav" in cl:
                wav.audiofile.close()
    except p.errors.ArgumentError:
        if step * rate < 2:
            note_accept("ArgumentError(step < 2 samples)")
            return {"classes": ["step_too_small"], "nontrivial": True}
        raise Violation("rejected-valid-step", f"{what}: ArgumentError")
    except p.errors.FindZeroCrossingError:
        if n >= 16 and not any(samples) and on_grid and 0 <= t <= n / rate and 2 <= step * rate <= n / 4:
            raise Violation("crossing-not-found-in-silence", f"{what}: every sample of the recording is zero, yet 'no crossing found'")
        note_accept("FindZeroCrossingError")
        return {"classes": ["not_found"], "nontrivial": False}
    if step * rate < 2:
        raise Violation("small-step-accepted", f"{what}: a step of {step * rate} samples was accepted")
    if getattr(wav, "frames", None) != frames_before:
        raise Violation("receiver-mutated", what)
    idx = check_crossing_value(r, samples, rate, on_grid, what)
    if idx < n and samples[min(idx, n - 1)] == 0:
        cl.add("returned_zero_sample")
    else:
        cl.add("returned_sign_change")
    if abs(case["step_samples"] - round(case["step_samples"])) > 1e-9:
        cl.add("nonintegral_step")
    if not on_grid:
        cl.add("offgrid_target")
    return {"classes": sorted(cl), "nontrivial": any(samples)}


def run_search_edit_search(case):
    """A zero-crossing search, an in-place edit that keeps the length, another search: the second result
    must be a crossing of the audio that is in the Wav now."""
    p = P()
    width, rate, samples = case["width"], case["rate"], list(case["samples"])
    wav = mk_wav(samples, width, rate)
    n = len(samples)
    t = (case["target"] % (n + 1)) / rate
    try:
        with _Deadline("first search"):
            wav.findNearestZeroCrossing(t)
    except p.errors.PraatioException:
        pass
    i, j = sorted([case["i"] % (n + 1), case["j"] % (n + 1)])
    new = [case["fill"]] * (j - i)
    wav.replaceSegment(i / rate, j / rate, to_bytes(new, width))
    samples[i:j] = new
    if from_bytes(wav.frames, width) != samples:
        raise Violation("samples-differ", "replaceSegment with an equally long stretch")
    try:
        with _Deadline("search after the edit"):
            r = wav.findNearestZeroCrossing(t)
    except p.errors.ArgumentError:
        return {"classes": ["step_too_small"], "nontrivial": False}
    except p.errors.FindZeroCrossingError:
        return {"classes": ["not_found_after_edit"], "nontrivial": False}
    check_crossing_value(r, samples, rate, True, f"search, replaceSegment({i},{j}) with {case['fill']}, search again at {t!r}")
    got = list(wav.getSamples(0, n / rate))
    if got != samples:
        raise Violation("samples-differ", "getSamples after search/edit/search returns other samples than the frames hold")
    return {"classes": ["search_edit_search"], "nontrivial": j > i}


@st.composite
def ses_cases(draw):
    width, rate, s, kind = draw(recording(kinds=["sine", "single", "random"], min_n=20))
    rate = draw(st.sampled_from([8000, 16000, 44100]))
    return {"width": width, "rate": rate, "samples": s, "target": draw(st.integers(0, 400)), "i": draw(st.integers(0, 400)),
            "j": draw(st.integers(0, 400)), "fill": draw(st.sampled_from([80, -80, 1, 100]))}


def run_tg_boundaries(case):
    p = P()
    from praatio import praatio_scripts

    width, rate, samples = case["width"], case["rate"], case["samples"]
    n = len(samples)
    dur = n / rate
    wav = mk_wav(samples, width, rate)
    last = max([j for _, j, _ in case["intervals"]] + [i for i, _ in case["points"]] + [0])
    short = bool(case.get("short_tg")) and 0 < last < n
    tg_end = last / rate if short else dur  # short: the annotation stops at its last boundary, before the recording does
    tg = p.Textgrid(0, tg_end)
    ents = [p.Interval(i / rate, j / rate, l) for i, j, l in case["intervals"]]
    tg.addTier(p.IntervalTier("iv", ents, 0, tg_end))
    tg.addTier(p.PointTier("pt", [p.Point(i / rate, l) for i, l in case["points"]], 0, tg_end))
    before = snap_tg(tg)
    try:
        with quiet(), _Deadline("tgBoundariesToZeroCrossings"):
            res = praatio_scripts.tgBoundariesToZeroCrossings(tg, wav, case["adj_points"], case["adj_intervals"])
    except p.errors.PraatioException as e:
        note_accept(f"rejected:{type(e).__name__}")
        return {"classes": ["rejected"], "nontrivial": False}
    after = snap_tg(res)
    if after["names"] != before["names"]:
        raise Violation("tier-order", f"{after['names']} != {before['names']}")
    for tb, ta in zip(before["tiers"], after["tiers"]):
        if len(tb["entries"]) != len(ta["entries"]):
            raise Violation("entry-count", f"tier {tb['name']}: {len(ta['entries'])} entries from {len(tb['entries'])}")
        if sorted(e[-1] for e in tb["entries"]) != sorted(e[-1] for e in ta["entries"]):
            raise Violation("labels", f"tier {tb['name']}: labels changed")
        adjusted = case["adj_intervals"] if tb["type"] == "interval" else case["adj_points"]
        if not adjusted:
            if ta != tb:
                raise Violation("unadjusted-tier-changed", tb["name"])
            continue
        for e in ta["entries"]:
            for x in e[:-1]:
                check_crossing_value(x, samples, rate, True, f"tgBoundariesToZeroCrossings tier {tb['name']} entry {e}")
    cl2 = []
    if case.get("edit_then_again") and n >= 8:
        # the audio is edited in place (same length), then the same textgrid is snapped again: crossings of the audio as it is now
        k = 1 + case["edit_then_again"] % 5
        samples2 = samples[k:] + samples[:k]
        wav.replaceSegment(0, dur, to_bytes(samples2, width))
        if from_bytes(wav.frames, width) == samples2:
            try:
                with quiet(), _Deadline("tgBoundariesToZeroCrossings (second call)"):
                    res2 = praatio_scripts.tgBoundariesToZeroCrossings(tg, wav, case["adj_points"], case["adj_intervals"])
            except p.errors.PraatioException:
                res2 = None
            if res2 is not None:
                for tb, ta in zip(before["tiers"], snap_tg(res2)["tiers"]):
                    if (case["adj_intervals"] if tb["type"] == "interval" else case["adj_points"]):
                        for e in ta["entries"]:
                            for x in e[:-1]:
                                check_crossing_value(x, samples2, rate, True, f"second tgBoundariesToZeroCrossings after an in-place edit, tier {tb['name']} entry {e}")
                cl2.append("snapped_again_after_edit")
    return {"classes": ["returned"] + cl2 + (["textgrid_shorter_than_recording"] if short else []), "nontrivial": True}


def run_splice(case):
    p = P()
    from praatio import praatio_scripts

    width, rate = case["width"], case["rate"]
    samples, seg = case["samples"], case["segment"]
    n, m = len(samples), len(seg)
    dur = n / rate
    wav, segw = mk_wav(samples, width, rate), mk_wav(seg, width, rate)
    tg = p.Textgrid(0, dur)
    ents = [[i / rate, j / rate, l] for i, j, l in case["intervals"]]
    if case.get("same_label") and not case["align"]:  # (with alignment, boundaries on the insertion time are moved to the crossing)
        for e, (i, j, l) in zip(ents, case["intervals"]):
            if j <= case["insert"]:
                e[2] = "SPLICE"  # an earlier interval that happens to carry the label the new one gets
    tg.addTier(p.IntervalTier("target", [p.Interval(*e) for e in ents], 0, dur))
    pts = [[i / rate, l] for i, l in case["points"]]
    t_ins = case["insert"] / rate
    if case.get("twin_point") and case["stop"] is not None and not case["align"] and t_ins > 0:
        # two same-labelled points closer than the library's fuzzy entry equality: one just before the replaced region, one on its start
        pts = sorted(pts + [[t_ins * (1 - 2e-10), "q"], [t_ins, "q"]])
    near = False
    if case.get("near") and t_ins > 0:
        # what ends on the insertion time ends one unit in the last place before it instead: it ended before the insertion point
        just_before = math.nextafter(t_ins, -math.inf)
        for e in ents:
            if e[1] == t_ins and e[0] < just_before:
                e[1], near = just_before, True
        for q in pts:
            if q[0] == t_ins:
                q[0], near = just_before, True
        if near:
            tg = p.Textgrid(0, dur)
            tg.addTier(p.IntervalTier("target", [p.Interval(*e) for e in ents], 0, dur))
    tg.addTier(p.PointTier("pt", [p.Point(*e) for e in pts], 0, dur))
    if case.get("empty_tier"):
        tg.addTier(p.IntervalTier("nothing_yet", [], 0, dur))  # a tier nobody has annotated yet
    before = snap_tg(tg)
    align = case["align"]
    t_stop = None if case["stop"] is None else case["stop"] / rate
    what = f"audioSplice(insertStart={t_ins!r}, insertStop={t_stop!r}, align={align})"
    aligned_start = t_ins
    if align:
        try:
            aligned_start = mk_wav(samples, width, rate).findNearestZeroCrossing(t_ins)
        except p.errors.PraatioException:
            pass
    point = t_ins if t_stop is None else t_stop
    straddle = any(s < point < e for s, e, _ in ents)
    try:
        with quiet(), _Deadline(what):
            new_audio, new_tg = praatio_scripts.audioSplice(wav, segw, tg, "target", "SPLICE", t_ins, t_stop, align)
    except p.errors.PraatioException as e:
        if align:
            note_accept(f"aligned-rejected:{type(e).__name__}")
            return {"classes": ["rejected_aligned"], "nontrivial": False}
        if straddle:
            note_accept(f"straddle-rejected:{type(e).__name__}")
            return {"classes": ["rejected_straddle"], "nontrivial": False}
        raise Violation("rejected-valid-input", f"{what}: {type(e).__name__}: {e}")
    if snap_tg(tg) != before:
        raise Violation("textgrid-argument-mutated", what)
    if len(new_audio.frames) % width:
        raise Violation("split-sample", what)
    a_dur = new_audio.duration
    t_end = new_tg.maxTimestamp
    if abs(a_dur - t_end) > 1 / rate + 1e-9:
        raise Violation("durations-disagree", f"{what}: audio {a_dur!r} s vs textgrid {t_end!r} s (1/rate = {1 / rate})")
    res = snap_tg(new_tg)
    if res["names"] != before["names"]:
        raise Violation("tier-order", what)
    for tr in res["tiers"]:
        # every tier of the returned textgrid is as long as the returned audio, to within a sample (entry-less ones too)
        if abs(tr["maxT"] - a_dur) > 1 / rate + 1e-9:
            raise Violation("durations-disagree", f"{what}: tier {tr['name']!r} ends at {tr['maxT']!r}, the audio lasts {a_dur!r} s")
    tt = res["tiers"][0]["entries"]
    # entries that already carry the new label and end by the insertion point stay what they are
    old_same_label = [e for e in before["tiers"][0]["entries"] if e[2] == "SPLICE"]
    for e in old_same_label:
        if e not in tt:
            raise Violation("earlier-entry-changed", f"{what}: {e} (ends by the insertion point, labelled like the new interval) not in result tier {tt}")
    new = [e for e in tt if e[2] == "SPLICE" and e not in old_same_label]
    if len(new) != 1:
        raise Violation("new-interval", f"{what}: {len(new)} intervals labelled SPLICE in {tt}")
    ins_len = len(new_audio.frames) // width - (n - (0 if t_stop is None else 0))
    seg_dur = None
    # inserted audio length: with alignment the segment is trimmed to its own crossings
    if not align:
        seg_dur = m / rate
        if abs((new[0][1] - new[0][0]) - seg_dur) > 1e-9:
            raise Violation("new-interval", f"{what}: SPLICE interval {new[0]} is not {seg_dur} s long")
        start_expected = t_ins
        if abs(new[0][0] - start_expected) > 1e-9:
            raise Violation("new-interval", f"{what}: SPLICE interval {new[0]} does not start at {start_expected}")
    edit_point = min(t_ins, aligned_start)
    # entries that ended before the edit are unchanged; later entries keep their labels in order
    for bt, at in zip(before["tiers"], res["tiers"]):
        early = [e for e in bt["entries"] if e[-2] < edit_point]
        for e in early:
            if e not in at["entries"]:
                raise Violation("earlier-entry-changed", f"{what}: {e} (ends before {edit_point}) not in result tier {at['entries']}")
        late_point = max(point, aligned_start if t_stop is None else point)
        if not align:
            # a point exactly on the end of a replaced region belongs to the erased region (C07: a <= t <= b)
            strict = bt["type"] == "point" and t_stop is not None
            later = [e[-1] for e in bt["entries"] if (e[0] > point if strict else e[0] >= point) and e[-1] != ""]
            got = [e[-1] for e in at["entries"] if e[-1] != "SPLICE"]
            it = iter(got)
            if not all(l in it for l in later):
                raise Violation("later-label-lost", f"{what}: labels {later} after the insertion point are not preserved in order in {got}")
    cl = {"returned_aligned" if align else "returned_unaligned"}
    if t_stop is not None:
        cl.add("replaced_region")
    if not align:
        # the new interval covers the inserted audio: the segment's samples sit at the interval's position
        got_audio = from_bytes(new_audio.frames, width)
        i0, tie = nearest(new[0][0], rate)
        if not tie and got_audio[i0:i0 + m] != list(seg):
            raise Violation("interval-does-not-cover-inserted-audio", f"{what}: samples at the SPLICE interval {new[0]} (index {i0}) are not the inserted segment")
        if t_stop is None and case.get("second") is not None:
            # splice again into the returned audio/textgrid, beyond the original duration
            t2 = new_audio.duration - (case["second"] % 20) / rate
            if t2 > dur and not any(s_ < t2 < e_ for s_, e_, _ in res["tiers"][0]["entries"]):
                seg2 = [7, -7] * 5
                try:
                    with quiet():
                        a2, tg2 = praatio_scripts.audioSplice(new_audio, mk_wav(seg2, width, rate), new_tg, "target", "SPLICE2", t2, None, False)
                except p.errors.PraatioException as e:
                    raise Violation("rejected-valid-input", f"second {what} at {t2!r}: {type(e).__name__}: {e}")
                ents2 = [e for e in snap_tg(tg2)["tiers"][0]["entries"] if e[2] == "SPLICE2"]
                if len(ents2) != 1:
                    raise Violation("new-interval", f"second splice: {ents2}")
                j0, tie2 = nearest(ents2[0][0], rate)
                if not tie2 and from_bytes(a2.frames, width)[j0:j0 + len(seg2)] != seg2:
                    raise Violation("interval-does-not-cover-inserted-audio", f"second splice at {t2!r} (beyond the original duration {dur}): the audio at the new interval {ents2[0]} is not the inserted segment")
                cl.add("second_splice_beyond_original_duration")
    if near:
        cl.add("entry_ends_one_ulp_before_insertion")
    if old_same_label:
        cl.add("earlier_entry_labelled_like_the_new_one")
    if len({i for i, _ in case["points"]}) < len(case["points"]):
        cl.add("coinciding_points")
    if any(i == case["insert"] for i, _ in case["points"]):
        cl.add("point_on_insertion_time")
    # entry counts: nothing before the edit may vanish (checked above); labels of every tier survive unless erased
    if t_stop is None:
        for bt, at in zip(before["tiers"], res["tiers"]):
            want = sorted(e[-1] for e in bt["entries"] if e[-1] != "SPLICE")
            got = sorted(e[-1] for e in at["entries"] if e[-1] != "SPLICE")
            if want != got:
                raise Violation("labels-changed", f"{what}: tier {bt['name']}: labels {want} became {got}")
    return {"classes": sorted(cl), "nontrivial": True}


# ------------------------------------------------------------------- generators


@st.composite
def recording(draw, max_n=400, kinds=None, min_n=0):
    width = draw(st.sampled_from([1, 2, 4]))
    rate = draw(st.sampled_from([100, 1000, 8000, 16000, 44100]))
    n = draw(st.one_of(st.integers(min_n, max(40, min_n)), st.integers(min_n, max_n)))
    kind = draw(st.sampled_from(kinds or ["random", "positive", "zero", "sparse_zero", "single", "sine", "sine", "byte_patterns"]))
    if kind == "random":
        s = draw(st.lists(st.integers(-100, 100), min_size=n, max_size=n))
    elif kind == "positive":
        s = draw(st.lists(st.integers(1, 100), min_size=n, max_size=n))
    elif kind == "byte_patterns":
        # non-zero samples whose packed bytes contain runs of zero bytes (5, 256, 2**24 ...), all of one sign
        top = {1: [1, 5, 127], 2: [5, 255, 256, 512, 32512], 4: [5, 255, 256, 65536, 2 ** 24, 3 * 2 ** 24]}[width]
        s = draw(st.lists(st.sampled_from(top), min_size=n, max_size=n))
        if draw(st.booleans()):
            s = [-v for v in s]
    elif kind == "zero":
        s = [0] * n
    elif kind == "sparse_zero":
        zs = set(draw(st.lists(st.integers(0, max(n - 1, 0)), max_size=3)))
        s = [0 if i in zs else 50 for i in range(n)]
    elif kind == "single":
        c = draw(st.integers(0, n))
        s = [40] * c + [-40] * (n - c)
    else:
        period = draw(st.sampled_from([5, 8, 13, 40]))
        s = [round(100 * math.sin(2 * math.pi * (i + 0.3) / period)) for i in range(n)]
    return width, rate, s, kind


@st.composite
def zc_cases(draw):
    width, rate, s, kind = draw(recording())
    target = [draw(st.integers(0, 400)), draw(st.sampled_from([0, 0, 0, 0.25, -0.4, 0.5]))]
    step = draw(st.sampled_from([2.5, 3, 3.5, 2, 4, 16, 4.5, 3.3, 7.75, 88.2, 2.3, 1.5, 1, 0.5]))
    return {"width": width, "rate": rate, "samples": s, "kind": kind, "target": target, "step_samples": step,
            "outside": draw(st.sampled_from([None, None, None, None, "before", "after"])),
            "backend": draw(st.sampled_from(["wav", "query"]))}


@st.composite
def tgb_cases(draw):
    width, rate, s, kind = draw(recording(kinds=["sine", "sine", "random"], min_n=40))
    rate = draw(st.sampled_from([8000, 16000, 44100]))
    n = len(s)
    k = draw(st.integers(0, 3))
    cuts = sorted(draw(st.lists(st.integers(0, n), min_size=2 * k, max_size=2 * k, unique=True)))
    ivs = [[cuts[2 * i], cuts[2 * i + 1], f"w{i}"] for i in range(k)]
    pts = [[i, f"p{q}"] for q, i in enumerate(sorted(draw(st.lists(st.integers(0, n), max_size=3, unique=True))))]
    return {"width": width, "rate": rate, "samples": s, "intervals": ivs, "points": pts,
            "adj_points": draw(st.booleans()), "adj_intervals": draw(st.booleans()), "short_tg": draw(st.booleans()),
            "edit_then_again": draw(st.one_of(st.none(), st.integers(0, 9)))}


@st.composite
def splice_cases(draw):
    width = draw(st.sampled_from([1, 2, 4]))
    rate = draw(st.sampled_from([1000, 8000, 16000, 44100]))
    n = draw(st.integers(60, 400))
    period = draw(st.sampled_from([5, 8, 13]))
    s = [round(100 * math.sin(2 * math.pi * (i + 0.3) / period)) for i in range(n)]
    m = draw(st.integers(30, 120))
    seg = [round(80 * math.sin(2 * math.pi * (i + 0.1) / 7)) for i in range(m)]
    k = draw(st.integers(0, 3))
    cuts = sorted(draw(st.lists(st.integers(0, n), min_size=2 * k, max_size=2 * k, unique=True)))
    ivs = [[cuts[2 * i], cuts[2 * i + 1], f"w{i}"] for i in range(k)]
    pts = [[i, f"p{q}"] for q, i in enumerate(sorted(draw(st.lists(st.integers(0, n), max_size=4, unique=draw(st.booleans())))))]
    cands = [0, n] + cuts + [i for i, _ in pts]
    ins = draw(st.one_of(st.sampled_from(cands), st.integers(0, n)))
    stop = None
    if draw(st.integers(0, 2)) == 0:
        stop = draw(st.one_of(st.sampled_from(cands), st.integers(0, n)))
        if stop <= ins:
            stop = None
    align = draw(st.booleans())
    if draw(st.integers(0, 5)) == 0:
        # 'sp word sp': the word is replaced, and the interval before it ends exactly where the replaced region starts
        c = sorted(draw(st.lists(st.integers(0, n), min_size=4, max_size=4, unique=True)))
        ivs = [[c[0], c[1], "w0"], [c[1], c[2], "w1"], [c[2], c[3], "w2"]]
        ins, stop, align = c[1], c[2], False
    return {"width": width, "rate": rate, "samples": s, "segment": seg, "intervals": ivs, "points": pts,
            "insert": ins, "stop": stop, "align": align, "second": draw(st.one_of(st.none(), st.integers(0, 19))),
            "near": draw(st.booleans()), "same_label": draw(st.integers(0, 2)) == 0, "twin_point": draw(st.booleans()),
            "empty_tier": draw(st.booleans())}


CHECKS = [
    Check("zero_crossing", run_zero_crossing, strategy=lambda tier: zc_cases(), quick_n=4000, thorough_n=40000),
    Check("search_edit_search", run_search_edit_search, strategy=lambda tier: ses_cases(), quick_n=300, thorough_n=5000),
    Check("tg_boundaries", run_tg_boundaries, strategy=lambda tier: tgb_cases(), quick_n=1200, thorough_n=5000),
    Check("splice", run_splice, strategy=lambda tier: splice_cases(), quick_n=1500, thorough_n=15000),
]
KNOWN = {}
