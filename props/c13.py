"""C13 - copy-returning operations never mutate; failed mutations change nothing."""
from __future__ import annotations

import math
import os

from hypothesis import strategies as st

from vlib import gen, ops
from vlib.pio import P, mk_tier, mk_tg, snap_tier, snap_tg, quiet, tmpdir
from vlib.run import Check, Violation, note_accept

PROPERTY = "C13"
RULE = (
    "tier histories (as C05: <=10 operations over <=4 live tiers, arbitrary arguments): exact snapshots (name, span, repr of "
    "every timestamp, labels, order) of every live tier are taken before each call and compared after it, on the success "
    "path and on the exception path; the receiver of a successful insertEntry/deleteEntry is the only object allowed to "
    "change. Textgrid operations: generated textgrids x {crop, eraseRegion, insertSpace, editTimestamps, appendTextgrid, "
    "mergeTiers, new, validate, save (4 formats), tier queries} with snapshots of receiver and argument, and mutators "
    "{addTier, removeTier, renameTier, replaceTier, tier.insertEntry, tier.deleteEntry} with argument choices that fail "
    "(name clash, missing name, span change under reportingMode='error', invalid option value, collision in error mode, "
    "absent entry). Failing saves (override inside the data, invalid textgrid under reportingMode='error', invalid format or "
    "option) onto a pre-existing destination file: file bytes compared. Non-trivial: an exception path was taken, or the "
    "operation produced a result that differs from the receiver."
)
ASSUMPTIONS = [
    "insertEntry(collisionMode replace|merge, collisionReportingMode='error'): 'error' is outside the documented values of that "
    "parameter (silence|warning) and outside the statement's failure list (collision in error *mode*); the all-or-nothing clause is "
    "not asserted for it (the tier is still checked for well-formedness by C05)",
    "aliasing between a result and its receiver (shared entry objects) is not a violation by itself: the statement is about the call",
]
REQUIRED_CLASSES = ["args:unsorted_argument", "tier_history:mutator_failed", "tg_ops:mutator_failed", "save_fail:failed_with_existing_file",
                    "tg_ops:rename_clash", "tg_ops:add_span_error"]


def run_tier_history(case):
    tiers = [mk_tier(s) for s in case["init"]]
    classes = set()
    nt = False
    for k, op in enumerate(case["ops"]):
        orig = list(tiers)
        before = [snap_tier(t) for t in orig]
        r = ops.apply_op(tiers, op)
        if r.status == "skipped":
            continue
        what = f"step {k} {op}"
        failed = r.status != "ok"
        for i, (t, b) in enumerate(zip(orig, before)):
            after = snap_tier(t)
            if after == b:
                continue
            if r.mutator and t is r.receiver and not failed:
                continue  # the one allowed change
            if r.mutator and t is r.receiver and failed and op["op"] == "insert_entry" and op.get("report") == "error" \
                    and op.get("mode") in ("replace", "merge"):
                # collisionReportingMode='error' is not a documented value (Literal['silence','warning']); the library
                # accepts it and then reports the collision - by raising - after the replacement was made
                classes.add("undocumented_error_report_after_edit")
                continue
            if r.mutator and t is r.receiver and failed:
                raise Violation(f"not-atomic:{op['op']}", f"{what}: raised {type(r.exc).__name__} but the tier changed from {b} to {after}")
            role = "receiver" if t is r.receiver else "other tier"
            raise Violation(f"mutated:{op['op']}", f"{what}: {role} {i} changed from {b} to {after}"
                            + (f" (call raised {type(r.exc).__name__})" if failed else ""))
        if failed:
            classes.add("mutator_failed" if r.mutator else "copy_op_failed")
            nt = True
        else:
            classes.add(f"{op['op']}_ok")
            if r.result is not None and r.receiver is not None and snap_tier(r.result) != snap_tier(r.receiver):
                nt = True
    return {"classes": sorted(classes), "nontrivial": nt}


# ----------------------------------------------------------------- textgrid ops


@st.composite
def tg_op_cases(draw):
    style = draw(gen.STYLES_ARITH)
    spec = draw(gen.textgrid(style=style, max_tiers=3, label=gen.ABE))
    if draw(st.integers(0, 3)) == 0:
        # a textgrid that declares a longer span than its tiers have (a tier added in 'silence' mode does not shrink it)
        spec = draw(gen.textgrid(style=style, max_tiers=draw(st.sampled_from([1, 2, 3])), label=gen.ABE, clean=False))
        spec["maxT"] = spec["maxT"] + 1.5
        for t in spec["tiers"][1:]:
            if draw(st.integers(0, 2)) == 0:
                t["entries"] = []  # entry-less tiers with a span of their own
                t["maxT"] = t["maxT"] + draw(st.sampled_from([0.0, 1.0]))
                if draw(st.booleans()):
                    t["type"] = spec["tiers"][0]["type"]  # of the first tier's kind and longer than it
                    t["maxT"] = max(t["maxT"], spec["tiers"][0]["maxT"] + 0.5)
        spec["maxT"] = max([spec["maxT"]] + [t["maxT"] for t in spec["tiers"]])
    elif draw(st.integers(0, 4)) == 0:
        # one tier ends one unit in the last place before the textgrid does (0.3 in a textgrid ending at 0.1 + 0.2)
        t = spec["tiers"][draw(st.integers(0, len(spec["tiers"]) - 1))]
        lo_ = math.nextafter(t["maxT"], -math.inf)
        if all(e[-2] <= lo_ for e in t["entries"]) and lo_ > t["minT"]:
            t["maxT"] = lo_
    other = draw(gen.textgrid(style=style, max_tiers=2, label=gen.AB))
    names = [t["name"] for t in spec["tiers"]]
    ts = sorted({t for tr in spec["tiers"] for e in tr["entries"] for t in e[:-1]} | {spec["minT"], spec["maxT"]})
    pick = st.sampled_from(ts + [(x + y) / 2 for x, y in zip(ts, ts[1:])] + [spec["maxT"] + 1.0])
    kind = draw(st.sampled_from(["crop", "erase", "insert_space", "edit", "append", "merge", "new", "validate", "save_str",
                                 "queries", "add", "add", "readd", "remove", "rename", "rename", "replace", "replace",
                                 "tier_insert", "tier_insert", "tier_insert", "tier_delete", "merge"]))
    if any(0 < spec["maxT"] - t["maxT"] < 1e-9 for t in spec["tiers"]) and draw(st.booleans()):
        kind = draw(st.sampled_from(["validate", "save_str", "queries"]))  # pure queries on a textgrid validate() complains about
    elif spec["maxT"] > max(t["maxT"] for t in spec["tiers"]) and draw(st.booleans()):
        kind = draw(st.sampled_from(["replace", "rename", "add", "replace", "remove", "replace", "merge", "append"]))  # the textgrid's own span is at stake here
    if len(spec["tiers"]) >= 2 and any(not t["entries"] and t["maxT"] > spec["tiers"][0]["maxT"] for t in spec["tiers"][1:]) and draw(st.booleans()):
        kind = "merge"  # entry-less tiers with a longer span than the first: nothing to fuse, and nothing of the receiver to touch
    op = {"kind": kind}
    anyname = st.sampled_from(names + ["zz"])
    if kind in ("crop", "erase"):
        op.update(a=draw(pick), b=draw(pick), mode=draw(st.sampled_from(["strict", "lax", "truncated", "bogus"])),
                  rebase=draw(st.booleans()), shrink=draw(st.booleans()))
    elif kind == "insert_space":
        op.update(s=draw(pick), d=draw(st.sampled_from([0.5, 1.0, 0.3])), mode=draw(st.sampled_from(["stretch", "split", "no_change", "error", "bogus"])))
    elif kind == "edit":
        op.update(offset=draw(st.one_of(pick, pick.map(lambda t: -t))), mode=draw(st.sampled_from(["silence", "warning", "error", "bogus"])))
    elif kind == "append":
        op.update(only=draw(st.booleans()))
    elif kind == "merge":
        op.update(names=draw(st.one_of(st.none(), st.lists(st.sampled_from(names), unique=True), st.just(list(reversed(names))))), preserve=draw(st.booleans()))
    elif kind == "save_str":
        op.update(fmt=draw(st.sampled_from(["short_textgrid", "long_textgrid", "json", "textgrid_json"])), blanks=draw(st.booleans()))
    elif kind == "add":
        op.update(name=draw(anyname), index=draw(st.one_of(st.none(), st.integers(-2, 5))),
                  span=draw(st.sampled_from([[spec["minT"], spec["maxT"]], [spec["minT"], spec["maxT"] + 1.0], [0.0, spec["maxT"] + 2.0]])),
                  mode=draw(st.sampled_from(["silence", "warning", "error", "error", "bogus"])))
    elif kind == "readd":
        # the tier object that is already in the textgrid is added again, possibly after it grew beyond the textgrid
        op.update(name=draw(st.sampled_from(names)), index=draw(st.one_of(st.none(), st.integers(-2, 5))), widen=draw(st.booleans()),
                  mode=draw(st.sampled_from(["silence", "warning", "error", "error", "bogus"])))
    elif kind == "remove":
        op.update(name=draw(anyname))
    elif kind == "rename":
        op.update(name=draw(anyname), new=draw(st.sampled_from(names + ["zz", "yy"])), widen_first=draw(st.integers(0, 2)) == 0)
        if len(names) >= 2 and draw(st.booleans()):
            op.update(name=names[0], new=names[1])  # a name that is taken
    elif kind == "replace":
        op.update(name=draw(anyname if len(names) > 1 else st.sampled_from(names + names + ["zz"])), new=draw(st.sampled_from(names + ["zz"])),
                  span=draw(st.sampled_from([[spec["minT"], spec["maxT"]], [spec["minT"], spec["maxT"] + 1.0]])),
                  mode=draw(st.sampled_from(["silence", "warning", "error", "error", "bogus"])), widen_first=draw(st.integers(0, 2)) == 0)
    elif kind == "tier_insert":
        op.update(name=draw(st.sampled_from(names)), a=draw(pick), b=draw(pick), mode=draw(st.sampled_from(["error", "error", "replace", "merge", "bogus"])),
                  report=draw(st.sampled_from(["silence", "warning", "bogus"])))
    elif kind == "tier_delete":
        op.update(name=draw(st.sampled_from(names)), sel=draw(st.integers(0, 5)), absent=draw(st.booleans()))
    return {"tg": spec, "other": other, "op": op}


def _widen_first(tg, op, classes):
    """Optionally let the addressed tier grow beyond its textgrid (tier.insertEntry does not tell the textgrid) before the
    mutator under test is called; returns the state the textgrid has to be in if that call fails."""
    p = P()
    if op.get("widen_first") and op["name"] in tg.tierNames:
        t = tg.getTier(op["name"])
        far = tg.maxTimestamp + 1.0
        t.insertEntry((far, far + 1.0, "w") if isinstance(t, p.IntervalTier) else (far, "w"), "error", "silence")
        classes.add("tier_grew_beyond_textgrid_first")
    return snap_tg(tg)


def run_tg_op(case):
    p = P()
    spec, op = case["tg"], case["op"]
    tg = mk_tg(spec)
    other = mk_tg(case["other"])
    kind = op["kind"]
    before, obefore = snap_tg(tg), snap_tg(other)
    mutator = kind in ("add", "readd", "remove", "rename", "replace", "tier_insert", "tier_delete")
    new_tier = None
    classes = {kind}
    if any(0 < spec["maxT"] - t["maxT"] < 1e-9 for t in spec["tiers"]):
        classes.add("tier_ends_one_ulp_before_textgrid")
    if len(spec["tiers"]) == 1 and spec["maxT"] > spec["tiers"][0]["maxT"]:
        classes.add("single_tier_shorter_than_textgrid")

    def mk_new(name, span):
        return p.IntervalTier(name, [p.Interval(span[0], (span[0] + span[1]) / 2, "new")], span[0], span[1])

    exc = None
    res = None
    arg_changed = None
    try:
        with quiet():
            if kind == "crop":
                res = tg.crop(op["a"], op["b"], op["mode"], op["rebase"])
            elif kind == "erase":
                res = tg.eraseRegion(op["a"], op["b"], op["shrink"])
            elif kind == "insert_space":
                res = tg.insertSpace(op["s"], op["d"], op["mode"])
            elif kind == "edit":
                res = tg.editTimestamps(op["offset"], op["mode"])
            elif kind == "append":
                res = tg.appendTextgrid(other, op["only"])
            elif kind == "merge":
                names_arg = None if op["names"] is None else list(op["names"])
                try:
                    res = tg.mergeTiers(names_arg, op["preserve"])
                finally:
                    if names_arg != op["names"]:
                        arg_changed = f"mergeTiers changed the list of names it was given: {op['names']} -> {names_arg}"
            elif kind == "new":
                res = tg.new()
            elif kind == "validate":
                tg.validate("silence")
                tg == other  # noqa  (equality is a query too)
            elif kind == "save_str":
                fn = os.path.join(tmpdir(), "c13.TextGrid")
                tg.save(fn, op["fmt"], op["blanks"])
            elif kind == "queries":
                for t in tg.tiers:
                    t.find("a"); t.find("a", True); t.find("A", usingRE=True); t.timestamps; len(t); list(t)
                    if isinstance(t, p.IntervalTier):
                        if len(t.entries):
                            t.getNonEntries()
                        t.getValuesInIntervals([(0.5, 1), (1.0, 2)])
                    else:
                        t.getValuesAtPoints([(0.5, 1), (1.0, 2)], fuzzyMatching=True)
                tg.tierNames, tg.tiers, len(tg)
            elif kind == "add":
                new_tier = mk_new(op["name"], op["span"])
                tg.addTier(new_tier, op["index"], op["mode"])
            elif kind == "readd":
                t = tg.getTier(op["name"])
                if op["widen"]:
                    far = tg.maxTimestamp + 1.0
                    t.insertEntry((far, far + 1.0, "w") if isinstance(t, p.IntervalTier) else (far, "w"), "error", "silence")
                before = snap_tg(tg)
                tg.addTier(t, op["index"], op["mode"])
            elif kind == "remove":
                tg.removeTier(op["name"])
            elif kind == "rename":
                before = _widen_first(tg, op, classes)
                tg.renameTier(op["name"], op["new"])
            elif kind == "replace":
                new_tier = mk_new(op["new"], op["span"])
                before = _widen_first(tg, op, classes)
                tg.replaceTier(op["name"], new_tier, op["mode"])
            elif kind == "tier_insert":
                t = tg.getTier(op["name"])
                ent = (min(op["a"], op["b"]), max(op["a"], op["b"]) + (0.5 if op["a"] == op["b"] else 0), "n") \
                    if isinstance(t, p.IntervalTier) else (op["a"], "n")
                t.insertEntry(ent, op["mode"], op["report"])
            elif kind == "tier_delete":
                t = tg.getTier(op["name"])
                ents = list(t.entries)
                if op["absent"] or not ents:
                    obj = p.Interval(900.0, 901.0, "zz") if isinstance(t, p.IntervalTier) else p.Point(900.0, "zz")
                else:
                    obj = ents[op["sel"] % len(ents)]
                t.deleteEntry(obj)
    except Exception as e:  # noqa
        exc = e
    after, oafter = snap_tg(tg), snap_tg(other)
    what = f"{op}"
    if arg_changed:
        raise Violation(f"argument-mutated:{kind}", arg_changed)
    if oafter != obefore:
        raise Violation(f"argument-mutated:{kind}", f"{what}: the argument textgrid changed")
    if new_tier is not None and exc is not None:
        pass
    if exc is not None:
        note_accept(f"{kind}:{type(exc).__name__}")
        if after != before:
            tag = "not-atomic" if mutator else "mutated-on-failure"
            raise Violation(f"{tag}:{kind}", f"{what}: raised {type(exc).__name__}: {exc}; textgrid changed from {before} to {after}")
        classes.add("mutator_failed" if mutator else "copy_op_failed")
        if kind == "replace" and "single_tier_shorter_than_textgrid" in classes and op["name"] in [t["name"] for t in spec["tiers"]]:
            classes.add("replace_of_only_tier_failed")
        if kind == "rename" and isinstance(exc, p.errors.TierNameExistsError):
            classes.add("rename_clash")
        if kind in ("add", "replace") and isinstance(exc, p.errors.TextgridStateAutoModified):
            classes.add("add_span_error")
        return {"classes": sorted(classes), "nontrivial": True}
    if not mutator and after != before:
        raise Violation(f"mutated:{kind}", f"{what}: receiver changed from {before} to {after}")
    nt = res is not None and snap_tg(res) != before
    return {"classes": sorted(classes), "nontrivial": nt or mutator}


# ------------------------------------------------- textgrids whose span is not (fully) set yet


@st.composite
def blank_tg_cases(draw):
    style = draw(gen.STYLES_ARITH)
    other = draw(gen.textgrid(style=style, max_tiers=2, label=gen.AB))
    return {"minT": draw(st.sampled_from([None, None, 0.0, 2.0])), "maxT": draw(st.sampled_from([None, None, 5.0, 1.0])),
            "other": other, "kind": draw(st.sampled_from(["add", "add", "append", "merge", "new", "validate", "crop", "edit"])),
            "span": draw(st.sampled_from([[0.0, 4.0], [1.0, 7.5], [3.0, 6.0]])),
            "mode": draw(st.sampled_from(["silence", "warning", "error", "error", "bogus"])),
            "index": draw(st.one_of(st.none(), st.integers(-1, 2)))}


def run_blank_tg(case):
    """A Textgrid() whose minTimestamp/maxTimestamp are still None (or only one of them is set) as receiver."""
    p = P()
    tg = p.Textgrid(case["minT"], case["maxT"])
    other = mk_tg(case["other"])
    before, obefore = snap_tg(tg), snap_tg(other)
    kind = case["kind"]
    mutator = kind == "add"
    exc = None
    try:
        with quiet():
            if kind == "add":
                sp = case["span"]
                tg.addTier(p.IntervalTier("n", [p.Interval(sp[0], (sp[0] + sp[1]) / 2, "x")], sp[0], sp[1]), case["index"], case["mode"])
            elif kind == "append":
                tg.appendTextgrid(other, True)
                tg.appendTextgrid(other, False)
            elif kind == "merge":
                tg.mergeTiers()
            elif kind == "new":
                tg.new()
            elif kind == "validate":
                tg.validate("silence")
            elif kind == "crop":
                tg.crop(0.5, 1.5, "truncated", False)
            elif kind == "edit":
                tg.editTimestamps(0.5, "silence")
    except Exception as e:  # noqa - whatever a half-initialised textgrid answers, it answers without changing
        exc = e
        note_accept(f"blank:{kind}:{type(e).__name__}")
    after = snap_tg(tg)
    if snap_tg(other) != obefore:
        raise Violation(f"argument-mutated:{kind}", "the argument textgrid changed")
    if (exc is not None or not mutator) and after != before:
        tag = "not-atomic" if mutator else ("mutated-on-failure" if exc is not None else "mutated")
        raise Violation(f"{tag}:{kind}", f"{kind} on Textgrid({case['minT']}, {case['maxT']})" + (f" raised {type(exc).__name__}" if exc else "")
                        + f": receiver changed from {before} to {after}")
    cl = [kind, "failed" if exc is not None else "ok"]
    if exc is not None and mutator:
        cl.append("add_failed_on_half_set_span")
    return {"classes": cl, "nontrivial": True}


# ------------------------------------------------------------------ failing save


@st.composite
def save_fail_cases(draw):
    style = draw(gen.STYLES_ARITH)
    spec = draw(gen.textgrid(style=style, max_tiers=3, label=gen.AB, clean=draw(st.booleans())))
    ends = sorted({t for tr in spec["tiers"] for e in tr["entries"] for t in e[:-1]})
    mode = draw(st.sampled_from(["override_max_inside", "override_min_inside", "invalid_error_mode", "bad_format",
                                 "bad_reporting_mode", "ok"]))
    return {"tg": spec, "failure": mode, "fmt": draw(st.sampled_from(["short_textgrid", "long_textgrid", "json", "textgrid_json"])),
            "blanks": draw(st.booleans()), "pick": draw(st.integers(0, 10))}


def run_save_fail(case):
    p = P()
    spec = case["tg"]
    tg = mk_tg(spec)
    fn = os.path.join(tmpdir(), "c13_dest.TextGrid")
    original = b"PRE-EXISTING CONTENT \xe2\x9c\x93\n" * 3
    with open(fn, "wb") as fd:
        fd.write(original)
    kw = {}
    fmt = case["fmt"]
    ends = sorted({t for tr in spec["tiers"] for e in tr["entries"] for t in e[:-1]})
    f = case["failure"]
    if f == "override_max_inside" and ends and ends[-1] > 0:
        kw["maxTimestamp"] = ends[-1] / 2
    elif f == "override_min_inside" and ends:
        kw["minTimestamp"] = ends[0] + (ends[-1] - ends[0]) / 2 + 0.25
    elif f == "invalid_error_mode":
        kw["reportingMode"] = "error"
    elif f == "bad_format":
        fmt = "bogus_format"
    elif f == "bad_reporting_mode":
        kw["reportingMode"] = "loud"
    before = snap_tg(tg)
    exc = None
    try:
        with quiet():
            tg.save(fn, fmt, case["blanks"], **kw)
    except Exception as e:  # noqa
        exc = e
    if snap_tg(tg) != before:
        raise Violation("mutated:save", f"save({fmt},{case['blanks']},{kw}) changed the textgrid"
                        + (f" (raised {type(exc).__name__})" if exc else ""))
    with open(fn, "rb") as fd:
        now = fd.read()
    os.remove(fn)
    if exc is not None:
        note_accept(f"save:{type(exc).__name__}")
        if now != original:
            raise Violation("failed-save-clobbered-file",
                            f"save({fmt},{case['blanks']},{kw}) raised {type(exc).__name__}: {exc} but the destination now holds {now[:80]!r}")
        return {"classes": ["failed_with_existing_file", f"fail:{f}"], "nontrivial": True}
    return {"classes": ["saved", f"ok:{f}"], "nontrivial": False}


@st.composite
def arg_cases(draw):
    style = draw(gen.STYLES_ARITH)
    spec = draw(st.one_of(gen.interval_tier(style=style, label=gen.AB, allow_empty=False), gen.point_tier(style=style, label=gen.AB, allow_empty=False)))
    rows = [[draw(st.sampled_from([0.5, 0.1, 2.0, 1.0, 0.25, 3.5])), i] for i in range(draw(st.integers(0, 6)))]
    return {"tier": spec, "perm": draw(st.permutations(list(range(len(spec["entries"]))))), "rows": rows,
            "then": draw(st.sampled_from(["none", "insert", "delete"])), "fuzzy": draw(st.booleans())}


def run_args(case):
    """Lists the caller owns (entry lists given to constructors / new(), sample series given to queries)
    are never reordered or written to, neither by the call nor by later edits of the returned tier."""
    p = P()
    spec = case["tier"]
    is_int = spec["type"] == "interval"
    E = p.Interval if is_int else p.Point
    objs = [E(*[float(x) for x in e[:-1]], e[-1]) for e in spec["entries"]]
    lst = [objs[i] for i in case["perm"]]  # proper entry objects, possibly out of time order
    before = list(lst)
    cls = p.IntervalTier if is_int else p.PointTier
    with quiet():
        t1 = cls("t", lst, spec["minT"], spec["maxT"])
    if lst != before or any(a is not b for a, b in zip(lst, before)):
        raise Violation("argument-mutated:constructor", f"the entry list given to the constructor was changed: {before} -> {lst}")
    lst2 = list(before)
    with quiet():
        t2 = t1.new(entries=lst2)
    if lst2 != before or any(a is not b for a, b in zip(lst2, before)):
        raise Violation("argument-mutated:new", f"the entry list given to new(entries=...) was changed: {before} -> {lst2}")
    if case["then"] != "none":
        with quiet():
            if case["then"] == "insert":
                far = (900.0, 901.0, "zz") if is_int else (900.0, "zz")
                t1.insertEntry(far)
                t2.insertEntry(far)
            else:
                t1.deleteEntry(t1.entries[0])
                t2.deleteEntry(t2.entries[0])
        if lst != before or lst2 != before:
            raise Violation("argument-aliased", f"editing the returned tier wrote into the caller's entry list: {lst} / {lst2}")
    # a mutator called with an invalid option value on a colliding entry changes nothing
    for mode, report in (("replace", "loud"), ("merge", None), ("bogus", "silence")):
        t3 = cls("t", list(before), spec["minT"], spec["maxT"])
        s0 = snap_tier(t3)
        victim = t3.entries[0]
        try:
            with quiet():
                t3.insertEntry(E(*[x for x in victim[:-1]], "new"), mode, report)
        except Exception:  # noqa
            if snap_tier(t3) != s0:
                raise Violation("not-atomic:insert_entry", f"insertEntry(mode={mode!r}, collisionReportingMode={report!r}) raised but changed the tier from {s0} to {snap_tier(t3)}")
        else:
            raise Violation("invalid-option-accepted", f"insertEntry(mode={mode!r}, collisionReportingMode={report!r}) did not raise")
    data = [tuple(r) for r in case["rows"]]
    d0 = list(data)
    if is_int:
        t1.getValuesInIntervals(data)
    elif data or not case["fuzzy"]:
        t1.getValuesAtPoints(data, fuzzyMatching=case["fuzzy"])
    if data != d0:
        raise Violation("argument-mutated:query", f"a query reordered the caller's sample series: {d0} -> {data}")
    unsorted = list(case["perm"]) != sorted(case["perm"]) or d0 != sorted(d0)
    return {"classes": ["args"] + (["unsorted_argument"] if unsorted else []), "nontrivial": unsorted}


CHECKS = [
    Check("tier_history", run_tier_history, strategy=lambda tier: ops.histories(10), quick_n=1200, thorough_n=20000),
    Check("blank_tg", run_blank_tg, strategy=lambda tier: blank_tg_cases(), quick_n=300, thorough_n=4000,
          doc="receivers whose span is still (partly) None: failed or copy-returning calls leave them as they were"),
    Check("tg_ops", run_tg_op, strategy=lambda tier: tg_op_cases(), quick_n=2000, thorough_n=30000),
    Check("args", run_args, strategy=lambda tier: arg_cases(), quick_n=600, thorough_n=8000,
          doc="entry lists and sample series passed as arguments are not reordered or aliased"),
    Check("save_fail", run_save_fail, strategy=lambda tier: save_fail_cases(), quick_n=600, thorough_n=8000),
]
KNOWN = {}
