"""C07 - eraseRegion blanks exactly the region and shrinks time by exactly its length."""
from __future__ import annotations

import itertools
from fractions import Fraction

from hypothesis import strategies as st

from vlib import gen, models
from vlib.pio import P, mk_tier, mk_tg, snap_tier, snap_tg, quiet
from vlib.run import Check, Violation, note_accept

PROPERTY = "C07"
RULE = (
    "enum: every interval tier of <=3 (thorough <=4) non-overlapping intervals on the integer grid 0..5 (0..8), "
    "labels all-distinct and all-equal, and every point tier of <=3 points, x every region a<b on the half-integer "
    "grid inside the span x {truncate,categorical,error} x doShrink; gen: random dyadic and non-dyadic decimal tiers "
    "and textgrids with region edges drawn from entry boundaries, midpoints and arbitrary in-span times (plus a>=b). "
    "Oracle: exact-rational model of the statement; grid results compared bit-for-bit, decimal results entry-for-entry "
    "within 4 ulp and never allowed to fail. Non-trivial: the region overlaps >=1 entry or shrinking moves >=1 entry."
)
ASSUMPTIONS = [
    "reference model vlib/models.py:erase_interval/erase_point is the reading of the statement",
    "entries wholly outside the region stay separate entries (no fusing of distinct same-labelled neighbours)",
    "for point tiers collisionMode is documented as ignored; with 'error' either removal or CollisionError is accepted",
]
REQUIRED_CLASSES = [
    "interval_grid:straddler",
    "interval_grid:same_label_neighbours_meet",
    "interval_random:decimal_shrink_moves_entry",
    "interval_random:straddler",
    "interval_random:after_in_place_edit",
    "straddle_decimal:straddler_with_touching_follower",
    "textgrid_random:textgrid_longer_than_tiers",
]

MODES = ["truncate", "categorical", "error"]


def classify(spec, a, b, mode, shrink):
    cl = []
    ents = spec["entries"]
    if spec["type"] == "interval":
        over = [e for e in ents if e[1] > a and e[0] < b]
        if over:
            cl.append("overlap")
        if any(e[0] < a and e[1] > b for e in ents):
            cl.append("straddler")
            if shrink and spec.get("style") != "grid" and any(x[0] < a and x[1] > b and y[0] == x[1] for x, y in zip(ents, ents[1:])):
                cl.append("straddler_with_touching_follower")
        if shrink and any(e[0] >= b for e in ents):
            cl.append("shrink_moves_entry")
            if spec.get("style") != "grid":
                cl.append("decimal_shrink_moves_entry")
        left = [e for e in ents if e[0] < a]
        right = [e for e in ents if e[1] > b]
        if shrink and left and right and left[-1] is not right[0] and left[-1][2] == right[0][2]:
            cl.append("same_label_neighbours_meet")
        if a in {t for e in ents for t in e[:2]} or b in {t for e in ents for t in e[:2]}:
            cl.append("edge_on_boundary")
    else:
        if any(a <= e[0] <= b for e in ents):
            cl.append("overlap")
        if shrink and any(e[0] > b for e in ents):
            cl.append("shrink_moves_entry")
        if any(e[0] in (a, b) for e in ents):
            cl.append("edge_on_boundary")
    return cl


def _check_result(res, spec, a, b, mode, shrink, what):
    N = models.num_type(spec.get("style"))
    exact = spec.get("style") == "grid" or not shrink
    if spec["type"] == "interval":
        m = models.erase_interval(spec["entries"], a, b, mode, shrink, spec["maxT"], N)
    else:
        m = models.erase_point(spec["entries"], a, b, shrink, spec["maxT"], N)
    snap = snap_tier(res)
    ops = [a, b, spec["maxT"]]
    models.compare_entries(snap["entries"], m[1], exact, ops, what)
    models.cmp_num(snap["maxT"], m[2], exact, ops, f"{what} maxTimestamp")
    models.cmp_num(snap["minT"], N(spec["minT"]), True, ops, f"{what} minTimestamp")
    models.check_wellformed(snap, what)
    return m


def run_tier_case(case):
    p = P()
    spec, a, b, mode, shrink = case["tier"], case["a"], case["b"], case["mode"], case["shrink"]
    tier = mk_tier(spec)
    spec = models.apply_pre(tier, spec, case.get("pre"))
    before = snap_tier(tier)
    classes = classify(spec, a, b, mode, shrink)
    if case.get("pre"):
        classes.append("after_in_place_edit")
    N = models.num_type(spec.get("style"))
    is_int = spec["type"] == "interval"
    try:
        with quiet():
            res = tier.eraseRegion(a, b, mode, shrink)
    except p.errors.PraatioException as e:
        if a >= b:
            note_accept("rejected(a>=b)")
            return {"classes": ["degenerate_region"], "nontrivial": True}
        if isinstance(e, p.errors.CollisionError) and mode == "error":
            if is_int:
                m = models.erase_interval(spec["entries"], a, b, mode, shrink, spec["maxT"], N)
                if m[0] == "collision":
                    note_accept("CollisionError(error mode)")
                    return {"classes": classes + ["collision"], "nontrivial": True}
            elif any(a <= t <= b for t, _ in spec["entries"]):
                note_accept("CollisionError(point tier, error mode)")
                return {"classes": classes + ["collision"], "nontrivial": True}
            raise Violation("spurious-collision", f"CollisionError although nothing overlaps ({a},{b})")
        raise Violation(
            "failed-on-valid-input",
            f"{type(e).__name__}: {e} for eraseRegion({a!r},{b!r},{mode},{shrink}) on {spec['entries']}",
        )
    if a >= b:
        raise Violation("degenerate-region-accepted", f"eraseRegion({a},{b}) returned instead of raising")
    if snap_tier(tier) != before:
        raise Violation("receiver-mutated", "eraseRegion changed its receiver")
    if is_int and mode == "error":
        m = models.erase_interval(spec["entries"], a, b, mode, shrink, spec["maxT"], N)
        if m[0] == "collision":
            raise Violation("collision-not-raised", f"mode 'error' but overlapping intervals were silently changed")
    _check_result(res, spec, a, b, mode, shrink, f"eraseRegion({a!r},{b!r},{mode},{shrink})")
    nt = "overlap" in classes or "shrink_moves_entry" in classes
    return {"classes": classes, "nontrivial": nt}


def run_tg_case(case):
    p = P()
    spec, a, b, shrink = case["tg"], case["a"], case["b"], case["shrink"]
    tg = mk_tg(spec)
    before = snap_tg(tg)
    try:
        with quiet():
            res = tg.eraseRegion(a, b, shrink)
    except p.errors.PraatioException as e:
        if a >= b and isinstance(e, p.errors.ArgumentError):
            note_accept("ArgumentError(a>=b)")
            return {"classes": ["degenerate_region"] + ([] if spec["tiers"] else ["degenerate_region_on_textgrid_without_tiers"]), "nontrivial": True}
        raise Violation("failed-on-valid-input", f"{type(e).__name__}: {e} for Textgrid.eraseRegion({a!r},{b!r},{shrink})")
    if a >= b:
        raise Violation("degenerate-region-accepted", "Textgrid.eraseRegion accepted a>=b")
    if snap_tg(tg) != before:
        raise Violation("receiver-mutated", "Textgrid.eraseRegion changed its receiver")
    if list(res.tierNames) != [t["name"] for t in spec["tiers"]]:
        raise Violation("tier-names", f"{res.tierNames}")
    classes = []
    for tspec, rt in zip(spec["tiers"], res.tiers):
        _check_result(rt, tspec, a, b, "truncate", shrink, f"tier {tspec['name']} of Textgrid.eraseRegion({a!r},{b!r},{shrink})")
        classes += classify(tspec, a, b, "truncate", shrink)
    N = models.num_type(spec.get("style"))
    exact = spec.get("style") == "grid" or not shrink
    want = N(spec["maxT"]) - (N(b) - N(a)) if shrink else N(spec["maxT"])
    models.cmp_num(res.maxTimestamp, want, exact, [a, b, spec["maxT"]], "textgrid maxTimestamp")
    if res.minTimestamp != spec["minT"]:
        raise Violation("timestamp-changed", f"textgrid minTimestamp {res.minTimestamp} != {spec['minT']}")
    clean = all((t["minT"], t["maxT"]) == (spec["minT"], spec["maxT"]) for t in spec["tiers"])
    with quiet():
        if clean and res.validate("silence") is not True:
            raise Violation("invalid-result", f"Textgrid.eraseRegion result does not validate: tg span "
                            f"[{res.minTimestamp!r},{res.maxTimestamp!r}] vs tiers {[(t.minTimestamp, t.maxTimestamp) for t in res.tiers]}")
    if not clean:
        classes.append("textgrid_longer_than_tiers")
    classes = sorted(set(classes))
    return {"classes": classes, "nontrivial": "overlap" in classes or "shrink_moves_entry" in classes}


# --------------------------------------------------------------- enumeration


def _grid_tiers(G, kmax):
    from props.c06 import grid_interval_tiers

    for ents in grid_interval_tiers(G, kmax):
        yield ents
        if len(ents) >= 2:
            yield [[s, e, "a"] for s, e, _ in ents]


def enum_interval(tier, shard, nshards):
    G, k = (5, 3) if tier == "quick" else (8, 4)
    vals = [x / 2 for x in range(0, 2 * G + 1)]
    i = 0
    for ents in _grid_tiers(G, k):
        i += 1
        if i % nshards != shard:
            continue
        spec = {"type": "interval", "name": "t", "entries": ents, "minT": 0.0, "maxT": float(G), "style": "grid"}
        for a, b in itertools.combinations(vals, 2):
            for mode in MODES:
                for shrink in (False, True):
                    yield {"tier": spec, "a": a, "b": b, "mode": mode, "shrink": shrink}


def enum_point(tier, shard, nshards):
    G = 4 if tier == "quick" else 6
    vals = [x / 2 for x in range(0, 2 * G + 1)]
    i = 0
    for k in range(0, 4):
        for comb in itertools.combinations(vals, k):
            i += 1
            if i % nshards != shard:
                continue
            spec = {"type": "point", "name": "p", "entries": [[t, "abcd"[j]] for j, t in enumerate(comb)],
                    "minT": 0.0, "maxT": float(G), "style": "grid"}
            for a, b in itertools.combinations(vals, 2):
                for shrink in (False, True):
                    yield {"tier": spec, "a": a, "b": b, "mode": "truncate", "shrink": shrink}


# ---------------------------------------------------------------- generators


@st.composite
def region_for(draw, entries_list, style, minT, maxT, degenerate=True):
    """(a, b) inside [minT, maxT]: edges on, inside and between entries."""
    bounds = sorted({t for ents in entries_list for en in ents for t in en[:-1]})
    thirds = [x + (y - x) * f for x, y in zip(bounds, bounds[1:]) for f in (0.25, 0.75)]
    cands = list(bounds) + [(x + y) / 2 for x, y in zip(bounds, bounds[1:])] + thirds + thirds + [minT, maxT]
    if style != "grid" and bounds:
        cands = cands + [v for b_ in bounds[:4] for v in gen.near_values(b_)]
    cands = [c for c in cands if minT <= c <= maxT]
    pick = st.one_of(st.sampled_from(cands), st.sampled_from(bounds or cands), gen.time_of(style).filter(lambda t: minT <= t <= maxT))
    a = draw(pick)
    b = draw(pick)
    r = draw(st.integers(0, 39)) if degenerate else 5
    ivs = [en for ents in entries_list for en in ents if len(en) == 3 and minT <= en[0] and en[1] <= maxT]
    if r in (2, 3, 4, 5, 6) and ivs:
        # a region strictly inside one interval (the straddling case)
        en = draw(st.sampled_from(ivs))
        w = en[1] - en[0]
        fr = [(0.25, 0.75), (0.5, 0.875), (0.125, 0.375)]  # dyadic: exact on the grid
        if style != "grid":
            fr += [(0.1, 0.3), (0.5, 0.9), (0.3, 0.37)]
        f0, f1 = draw(st.sampled_from(fr))
        a, b = en[0] + w * f0, en[0] + w * f1
        if not (en[0] < a < b < en[1]):
            a, b = en[0], en[1]
    elif r == 17:  # (Hypothesis favours 0 and the end points: keep the degenerate cases off them)
        b = a
    elif r == 23:
        a, b = max(a, b), min(a, b)
    else:
        if a > b:
            a, b = b, a
        if a == b:
            if a == maxT:
                a = minT if minT < maxT else a
            else:
                b = maxT
    return a, b


@st.composite
def tier_cases(draw):
    style = draw(gen.STYLES_ARITH)
    spec = draw(st.one_of(gen.interval_tier(style=style, max_segments=7, label=gen.AB),
                          gen.interval_tier(style=style, max_segments=7),
                          gen.point_tier(style=style, dups=True)))
    a, b = draw(region_for([spec["entries"]], style, spec["minT"], spec["maxT"]))
    if spec["type"] == "point" and style != "grid" and draw(st.integers(0, 4)) == 0:
        # two same-labelled points closer than the library's fuzzy entry equality, the region starting between them:
        # the later one goes, the earlier one stays
        t0 = draw(st.integers(1, 40)) / 10 + 0.05
        d = t0 * 3e-10
        spec["entries"] = sorted([e for e in spec["entries"] if not t0 - 0.01 < e[0] < t0 + 0.01] + [[t0, "a"], [t0 + d, "a"]])
        spec["maxT"] = max(spec["maxT"], t0 + 1.0)
        spec["minT"] = min(spec["minT"], t0)
        a, b = t0 + d / 2, t0 + draw(st.sampled_from([0.5, 1.0, 0.3]))
    if spec["type"] == "point" and style != "grid" and draw(st.integers(0, 5)) == 0:
        # two same-labelled points just before and just after the region: after the shrink they are closer than the fuzzy equality
        t0 = draw(st.integers(5, 30)) / 10
        spec["entries"] = sorted([e for e in spec["entries"] if not t0 - 0.01 < e[0] < t0 + 1.01] + [[t0 - 5e-10, "L"], [t0 + 1.0 + 5e-10, "L"]])
        spec["maxT"] = max(spec["maxT"], t0 + 2.0)
        spec["minT"] = min(spec["minT"], t0 - 5e-10)
        a, b = t0, t0 + 1.0
    if spec["type"] == "interval" and style != "grid" and spec["entries"] and draw(st.integers(0, 5)) == 0:
        # a region ending a few nanoseconds before an interval starts
        e0 = draw(st.sampled_from(spec["entries"]))
        if e0[0] - 4e-9 > spec["minT"] + 0.1 and not any(x[0] < e0[0] - 4e-9 < x[1] for x in spec["entries"]):
            a, b = max(spec["minT"], e0[0] - 0.5), e0[0] - 4e-9
    if style == "grid" and draw(st.integers(0, 7)) == 0:
        # a time axis that starts below zero (times relative to an event): the constructor and validate() accept it
        k = draw(st.sampled_from([2.5, 4.0, 1.0]))
        spec = dict(spec, entries=[[x - k for x in e[:-1]] + [e[-1]] for e in spec["entries"]], minT=spec["minT"] - k, maxT=spec["maxT"] - k)
        a, b = a - k, b - k
    pre = draw(st.one_of(st.none(), st.none(), st.fixed_dictionaries({"delete": st.one_of(st.none(), st.integers(0, 7))})))
    return {"tier": spec, "a": a, "b": b, "mode": draw(st.sampled_from(MODES)), "shrink": draw(st.booleans()), "pre": pre}


@st.composite
def tg_cases(draw):
    style = draw(gen.STYLES_ARITH)
    spec = draw(gen.textgrid(style=style, max_tiers=4, label=gen.AB))
    if draw(st.integers(0, 3)) == 0:
        spec["maxT"] = spec["maxT"] + 1.0  # a textgrid that is longer than all of its tiers
    a, b = draw(region_for([t["entries"] for t in spec["tiers"]], style, spec["minT"], min(t["maxT"] for t in spec["tiers"])))
    if draw(st.integers(0, 11)) == 0:
        # a textgrid that has a span but holds no tier (yet): the region rules are the textgrid's own
        spec = dict(spec, tiers=[])
        if draw(st.booleans()):
            a, b = max(a, b), min(a, b)
    return {"tg": spec, "a": a, "b": b, "shrink": draw(st.booleans())}


@st.composite
def straddle_cases(draw):
    """A region strictly inside one interval that is followed by touching intervals, on short decimals:
    the rounding-sensitive 'comes out as one interval' path."""
    d = draw(st.integers(1, 3))
    f = lambda k: float(f"{k}e-{d}")
    u = 10 ** d
    s0 = draw(st.integers(0, 3 * u))
    gaps = draw(st.lists(st.integers(1, 4 * u), min_size=3, max_size=3))  # start->a, a->b, b->end
    a, b, e0 = s0 + gaps[0], s0 + gaps[0] + gaps[1], s0 + sum(gaps)
    ents = [[f(s0), f(e0), "x"]]
    cur = e0
    for lab in draw(st.lists(st.sampled_from(["y", "x", "z"]), min_size=1, max_size=3)):
        nxt = cur + draw(st.integers(1, 2 * u))
        ents.append([f(cur), f(nxt), lab])
        cur = nxt
    spec = {"type": "interval", "name": "t", "entries": ents, "minT": 0.0, "maxT": f(cur + draw(st.sampled_from([0, 0, u]))), "style": "dec"}
    return {"tier": spec, "a": f(a), "b": f(b), "mode": "truncate", "shrink": True}


CHECKS = [
    Check("interval_grid", run_tier_case, kind="enum", enum=enum_interval, exhaustive=True,
          distinct_by_construction=True, doc="all order types of <=3/4 intervals against both region edges"),
    Check("point_grid", run_tier_case, kind="enum", enum=enum_point, exhaustive=True,
          distinct_by_construction=True, doc="all point tiers of <=3 points on the half-integer grid"),
    Check("interval_random", run_tier_case, strategy=lambda tier: tier_cases(), quick_n=2500, thorough_n=40000,
          doc="random dyadic / non-dyadic decimal tiers (rounding must never make the call fail)"),
    Check("textgrid_random", run_tg_case, strategy=lambda tier: tg_cases(), quick_n=700, thorough_n=12000,
          doc="Textgrid.eraseRegion tier-wise + span bookkeeping + validate()"),
    Check("straddle_decimal", run_tier_case, strategy=lambda tier: straddle_cases(), quick_n=1500, thorough_n=25000,
          doc="region strictly inside an interval with touching followers, 1-3 digit decimals, shrink: never a rounding failure"),
]

KNOWN = {}
