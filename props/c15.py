"""C15 - queries and derived views agree with their definitions."""
from __future__ import annotations

import math
import re
from fractions import Fraction

from hypothesis import strategies as st

from vlib import gen, models
from vlib.pio import P, mk_tier, mk_tg, snap_tier, snap_tg, quiet
from vlib.run import Check, Violation, note_accept

PROPERTY = "C15"
RULE = (
    "gen: tiers/textgrids (dyadic grid and decimals) x query labels and regexes over the alphabet {a,b,A,' ',.,|,^,$,*,[ab]}; "
    "sample series (time,value) sorted or shuffled, with duplicate times and samples exactly on entry boundaries; interval "
    "pairs on a small lattice x percent/time thresholds x boundaryInclusive (also exhaustively over a 6-point lattice); "
    "disjoint interval lists inside lo<hi for the complement helper; single-field perturbations (name, tier type, label, "
    "entry count, one timestamp moved by >=1e-6 relative and absolute, span) for equality; injected corruptions (tier span "
    "!= textgrid span, entry outside the span, entries out of order, start>=end) for validate. Oracle: the definitions in the "
    "statement re-implemented directly (==, in, re.search(...,re.I), complement of a set of intervals, start<=t<=end, "
    "minimal distance). Non-trivial: a sample on a boundary, a tie, a touching pair, a match, a perturbation or a corruption."
)
ASSUMPTIONS = [
    "getValuesAtPoints(fuzzy): any row at minimal distance is a correct answer (ties)",
    "intervalOverlapCheck with both thresholds: both documented 'must' conditions have to hold",
    "invertIntervalList: inputs are disjoint, inside [lo,hi]; an empty list is only meaningful with both bounds",
]
REQUIRED_CLASSES = ["views:tiny_gap", "find:regex_match", "values_in_intervals:sample_on_boundary", "values_at_points:tie",
                    "overlap_grid:touching", "invert:touching", "equality:perturbed_timestamp", "equality:perturbed_numeric_label", "validate:corrupted"]


# ------------------------------------------------------------------------ find

REGEXES = ["a", "b", "A", ".", "a|b", "^a", "b$", "a*", "[ab]", "", "a b", "^$", "B+", "x"]


@st.composite
def find_cases(draw):
    lab = st.sampled_from(["a", "b", "A", "ab", "ba", "a b", "", "B", "aa", "x"])
    spec = draw(st.one_of(gen.interval_tier(label=lab, style="grid"), gen.point_tier(label=lab, style="grid")))
    # queries with white space at an edge are not the trimmed label: ' a' is found in 'b a' (substring) and equals no label
    q = draw(st.one_of(lab, st.sampled_from(REGEXES), st.sampled_from([" a", "a ", " ", "b ", " b"])))
    if draw(st.integers(0, 3)) == 0:
        # two entries with the same label that are closer than the library's fuzzy entry equality: still two entries
        lb = draw(st.sampled_from(["a", "ab", q]))
        if spec["type"] == "point":
            t0 = draw(st.integers(1, 40)) / 8 + 0.05
            d = draw(st.sampled_from([math.ulp(t0), t0 * 3e-10, 0.0]))
            spec["entries"] = sorted(spec["entries"] + [[t0, lb], [t0 + d, lb]])
            spec["maxT"] = max(spec["maxT"], t0 + d)
        else:
            b0 = spec["maxT"]
            d = max(b0, 1.0) * 3e-10
            spec["entries"] = spec["entries"] + [[b0, b0 + d, lb], [b0 + d, b0 + 2 * d, lb]]
            spec["maxT"] = b0 + 2 * d
        spec["style"] = "dec"
    return {"tier": spec, "q": q}


def run_find(case):
    spec, q = case["tier"], case["q"]
    t = mk_tier(spec)
    ents = snap_tier(t)["entries"]
    labels = [e[-1] for e in ents]
    cl = []
    if any(x[-1] == y[-1] and all(math.isclose(a, b) for a, b in zip(x[:-1], y[:-1])) for x, y in zip(ents, ents[1:])):
        cl.append("close_twins")
    want = [i for i, l in enumerate(labels) if l == q]
    if t.find(q) != want or t.find(q, False, False) != want:
        raise Violation("find-exact", f"find({q!r}) = {t.find(q)} on {labels}, expected {want}")
    if want:
        cl.append("exact_match")
    want = [i for i, l in enumerate(labels) if q in l]
    if t.find(q, substrMatchFlag=True) != want:
        raise Violation("find-substring", f"find({q!r}, substr) = {t.find(q, substrMatchFlag=True)} on {labels}, expected {want}")
    if want:
        cl.append("substr_match")
    want = [i for i, l in enumerate(labels) if re.search(q, l, re.I) is not None]
    got = t.find(q, usingRE=True)
    if got != want:
        raise Violation("find-regex", f"find({q!r}, usingRE) = {got} on {labels}, expected {want}")
    if want:
        cl.append("regex_match")
    return {"classes": cl, "nontrivial": bool(cl)}


# ---------------------------------------------------------- non entries / timestamps


def run_views(case):
    spec = case["tier"]
    t = mk_tier(spec)
    ents = spec["entries"]
    cl = []
    ts = sorted({x for e in ents for x in e[:-1]})
    if list(t.timestamps) != ts:
        raise Violation("timestamps", f"{t.timestamps} != {ts}")
    # the view follows the tier through in-place edits (query, edit, query again)
    t2 = mk_tier(spec)
    for k, sel in enumerate(case.get("deletes", [])):
        cur = list(t2.entries)
        if not cur:
            break
        t2.timestamps
        t2.deleteEntry(cur[sel % len(cur)])
        want = sorted({x for e in t2.entries for x in e[:-1]})
        if list(t2.timestamps) != want:
            raise Violation("timestamps-stale", f"after deleteEntry #{k}: timestamps {list(t2.timestamps)} != {want}")
        cl.append("timestamps_after_delete")
    if spec["type"] == "interval" and ents:
        got = [list(x) for x in t.getNonEntries()]
        want = []
        cur = 0.0
        for s, e, _ in ents:
            if s > cur:
                want.append([cur, s, ""])
            cur = max(cur, e)
        if cur < spec["maxT"]:
            want.append([cur, spec["maxT"], ""])
        if got != want:
            raise Violation("non-entries", f"getNonEntries() = {got}, expected {want} for {ents} in [0,{spec['maxT']}]")
        if any(not g[0] < g[1] for g in got):
            raise Violation("non-entries", f"zero/negative-length non-entry in {got}")
        allp = sorted([list(e[:2]) for e in ents] + [g[:2] for g in got])
        if allp[0][0] != 0 or allp[-1][1] != spec["maxT"] or any(x[1] != y[0] for x, y in zip(allp, allp[1:])):
            raise Violation("non-entries", f"entries + non-entries do not tile [0,{spec['maxT']}]: {allp}")
        cl.append("non_entries")
        if any(0 < g[1] - g[0] <= 1e-8 for g in want):
            cl.append("tiny_gap")
        if any(0 < g[1] - g[0] <= 1e-14 * g[1] for g in want):
            cl.append("gap_of_one_ulp")
        if any(x[1] == y[0] for x, y in zip(ents, ents[1:])):
            cl.append("touching_entries")
    return {"classes": cl, "nontrivial": bool(cl)}


@st.composite
def tiny_gap_tier(draw):
    """Intervals separated by (or ending before the span end by) a few nanoseconds: real, positive-length gaps."""
    n = draw(st.integers(1, 4))
    t = draw(st.sampled_from([0.0, 4e-9, 0.5]))
    ents = []
    for i in range(n):
        e = t + draw(st.sampled_from([0.25, 0.5, 1.0]))
        ents.append([t, e, "ab"[i % 2]])
        g = draw(st.sampled_from([0.0, 5e-9, 2e-9, 0.25, "ulp", "ulp"]))
        t = math.nextafter(e, math.inf) if g == "ulp" else e + g  # "ulp": the next interval starts one unit in the last place later
    maxT = ents[-1][1] + draw(st.sampled_from([0.0, 2e-9, 1.0]))
    return {"type": "interval", "name": "t", "entries": ents, "minT": 0.0, "maxT": maxT, "style": "dec"}


# ------------------------------------------------------------------ sample queries


@st.composite
def series_for(draw, times, style):
    cand = list(times) + [(x + y) / 2 for x, y in zip(times, times[1:])]
    if style != "grid":
        # one unit in the last place before / after a boundary: outside is outside
        cand += [math.nextafter(t, math.inf) for t in times[:6]] + [math.nextafter(t, -math.inf) for t in times[:6] if t > 0]
    pick = st.one_of(st.sampled_from(cand) if cand else gen.time_of(style), gen.time_of(style))
    n = draw(st.integers(0, 8))
    rows = [[draw(pick), i] for i in range(n)]
    if not draw(st.booleans()):
        rows.sort()
    return rows


@st.composite
def vii_cases(draw):
    style = draw(gen.STYLES_ARITH)
    spec = draw(gen.interval_tier(style=style, label=gen.AB))
    ts = sorted({x for e in spec["entries"] for x in e[:2]})
    return {"tier": spec, "rows": draw(series_for(ts, style))}


def run_values_in_intervals(case):
    spec, rows = case["tier"], case["rows"]
    t = mk_tier(spec)
    data = [tuple(r) for r in rows]
    got = t.getValuesInIntervals(data)
    if len(got) != len(spec["entries"]):
        raise Violation("values-in-intervals", f"{len(got)} result rows for {len(spec['entries'])} intervals")
    cl = set()
    for (iv, vals), e in zip(got, spec["entries"]):
        if list(iv) != list(e):
            raise Violation("values-in-intervals", f"interval {list(iv)} != {e}")
        want = [r for r in data if e[0] <= r[0] <= e[1]]
        if list(vals) != want:
            raise Violation("values-in-intervals", f"interval {e}: got {vals}, expected {want} from {data}")
        if any(r[0] in (e[0], e[1]) for r in data):
            cl.add("sample_on_boundary")
        if want:
            cl.add("has_samples")
    return {"classes": sorted(cl), "nontrivial": bool(cl)}


@st.composite
def vap_cases(draw):
    style = draw(gen.STYLES_ARITH)
    spec = draw(gen.point_tier(style=style, label=gen.AB, dups=draw(st.booleans())))  # dups: several points at one time
    ts = [e[0] for e in spec["entries"]]
    rows = draw(series_for(ts, style))
    return {"tier": spec, "rows": rows, "fuzzy": draw(st.booleans())}


def run_values_at_points(case):
    spec, rows, fuzzy = case["tier"], case["rows"], case["fuzzy"]
    t = mk_tier(spec)
    data = [tuple(r) for r in rows]
    if fuzzy and not data:
        return {"classes": ["empty_series"], "nontrivial": False}
    got = t.getValuesAtPoints(data, fuzzyMatching=fuzzy)
    if len(got) != len(spec["entries"]):
        raise Violation("values-at-points", f"{len(got)} rows for {len(spec['entries'])} points")
    cl = set()
    for row, e in zip(got, spec["entries"]):
        tm = e[0]
        if not fuzzy:
            same = [r for r in data if r[0] == tm]
            if same:
                if row not in same:
                    raise Violation("values-at-points", f"point {tm}: got {row}, expected one of {same}")
                cl.add("exact_hit")
                if [x[0] for x in spec["entries"]].count(tm) > 1:
                    cl.add("exact_hit_for_coinciding_points")
                if len(same) > 1:
                    cl.add("tie")
            elif row != ():
                raise Violation("values-at-points", f"point {tm}: got {row}, expected () (no sample at that time in {data})")
        else:
            # distances as any floating-point implementation sees them (|3.4-2.0| and |2.0-0.6| are the same double)
            best = min(abs(r[0] - tm) for r in data)
            if row not in data or abs(row[0] - tm) != best:
                raise Violation("values-at-points-fuzzy", f"point {tm}: got {row}, nearest distance is {best} in {sorted(data)}")
            if len([r for r in data if abs(r[0] - tm) == best]) > 1:
                cl.add("tie")
            cl.add("fuzzy")
    return {"classes": sorted(cl), "nontrivial": bool(cl)}


# ---------------------------------------------------------------- overlap check


def model_overlap(a, b, pct, tt, incl):
    ov = max(Fraction(0), min(Fraction(a[1]), Fraction(b[1])) - max(Fraction(a[0]), Fraction(b[0])))
    flag = ov > 0
    if flag and pct > 0:
        total = max(Fraction(a[1]), Fraction(b[1])) - min(Fraction(a[0]), Fraction(b[0]))
        flag = ov / total >= Fraction(pct)
    if flag and tt > 0:
        flag = ov >= Fraction(tt)
    if incl and (a[0] == b[1] or a[1] == b[0]):
        flag = True
    return flag


def run_overlap(case):
    p = P()
    a, b = case["a"], case["b"]
    pct, tt, incl = case["pct"], case["tt"], case["incl"]
    got = p.utils.intervalOverlapCheck(p.Interval(a[0], a[1], "x"), p.Interval(b[0], b[1], "y"), pct, tt, incl)
    want = model_overlap(a, b, pct, tt, incl)
    # an overlap that equals a threshold up to rounding (0.25/2.5 vs 0.1) may be classified either way
    ov = max(Fraction(0), min(Fraction(a[1]), Fraction(b[1])) - max(Fraction(a[0]), Fraction(b[0])))
    if ov > 0:
        total = max(Fraction(a[1]), Fraction(b[1])) - min(Fraction(a[0]), Fraction(b[0]))
        eps = Fraction(1, 10**12)
        if (pct > 0 and abs(ov / total - Fraction(pct)) <= eps * Fraction(pct)) or (tt > 0 and abs(ov - Fraction(tt)) <= eps * Fraction(tt)):
            return {"classes": ["threshold_borderline"], "nontrivial": False}
    if bool(got) != want:
        raise Violation("overlap-check" + (":both-thresholds" if pct > 0 and tt > 0 else ""),
                        f"intervalOverlapCheck({a},{b},percent={pct},time={tt},inclusive={incl}) = {got}, expected {want}")
    sym = p.utils.intervalOverlapCheck(p.Interval(b[0], b[1], "y"), p.Interval(a[0], a[1], "x"), pct, tt, incl)
    if bool(sym) != bool(got):
        raise Violation("overlap-check-asymmetric", f"{a},{b}")
    cl = []
    if a[1] == b[0] or b[1] == a[0]:
        cl.append("touching")
    if want:
        cl.append("overlap")
    if pct > 0 or tt > 0:
        cl.append("threshold")
    return {"classes": cl, "nontrivial": bool(cl)}


def enum_overlap(tier, shard, nshards):
    pts = [0.0, 1.0, 2.0, 3.0, 4.0, 6.0]
    ivs = [(x, y) for x in pts for y in pts if x < y]
    i = 0
    for a in ivs:
        for b in ivs:
            i += 1
            if i % nshards != shard:
                continue
            for pct in (0, 0.25, 0.5, 1.0):
                for tt in (0, 1.0, 2.0):
                    for incl in (False, True):
                        yield {"a": list(a), "b": list(b), "pct": pct, "tt": tt, "incl": incl}


@st.composite
def overlap_cases(draw):
    style = draw(gen.STYLES_ARITH)
    bs = draw(gen.boundaries(style, 4))
    order = draw(st.permutations(range(4)))
    x = sorted([bs[order[0]], bs[order[1]]])
    y = sorted([bs[order[2]], bs[order[3]]])
    if draw(st.booleans()):
        y[0] = x[1]
        if y[1] <= y[0]:
            y[1] = y[0] + 0.5
    return {"a": x, "b": y, "pct": draw(st.sampled_from([0, 0, 0.1, 0.5, 0.9])), "tt": draw(st.sampled_from([0, 0, 0.05, 0.5])),
            "incl": draw(st.booleans())}


# -------------------------------------------------------------------- invert


@st.composite
def invert_cases(draw):
    style = draw(gen.STYLES_ARITH)
    tier = draw(gen.interval_tier(style=style, label=gen.AB))
    ivs = [[e[0], e[1]] for e in tier["entries"]]
    lo = draw(st.sampled_from([None, tier["minT"], 0.0]))
    hi = draw(st.sampled_from([None, tier["maxT"], tier["maxT"] + 1.0]))
    if lo is not None and ivs and lo > ivs[0][0]:
        lo = ivs[0][0]
    if not ivs and (lo is None or hi is None):
        lo, hi = 0.0, tier["maxT"]
    if lo is not None and hi is not None and not lo < hi:
        hi = lo + 1.0
    shuffled = draw(st.permutations(ivs)) if ivs else ivs
    if style == "grid" and draw(st.integers(0, 4)) == 0:
        # the same on a time axis that starts below zero
        k = draw(st.sampled_from([2.5, 4.0, 7.0]))
        shuffled = [[x[0] - k, x[1] - k] for x in shuffled]
        lo = None if lo is None else lo - k
        hi = None if hi is None else hi - k
    return {"intervals": [list(x) for x in shuffled], "lo": lo, "hi": hi}


def run_invert(case):
    p = P()
    ivs, lo, hi = case["intervals"], case["lo"], case["hi"]
    got = [list(x) for x in p.utils.invertIntervalList([tuple(x) for x in ivs], lo, hi)]
    s = sorted(ivs)
    want = []
    cur = lo
    for a, b in s:
        if cur is not None and a > cur:
            want.append([cur, a])
        cur = b
    if hi is not None and cur is not None and cur < hi:
        want.append([cur, hi])
    if not s and lo is not None and hi is not None:
        want = [[lo, hi]]
    if got != want:
        raise Violation("invert", f"invertIntervalList({ivs},{lo},{hi}) = {got}, expected {want}")
    cl = []
    if any(x[1] == y[0] for x, y in zip(s, s[1:])):
        cl.append("touching")
    if not s:
        cl.append("empty")
    if want:
        cl.append("has_gaps")
    return {"classes": cl, "nontrivial": bool(cl)}


# ------------------------------------------------------------------- equality


@st.composite
def equality_cases(draw):
    style = draw(gen.STYLES_ARITH)
    spec = draw(gen.textgrid(style=style, max_tiers=3, label=st.sampled_from(["a", "b", "132", "7", "1000", "nan", "0"])))
    return {"tg": spec, "tier": draw(st.integers(0, 5)), "entry": draw(st.integers(0, 9)), "field": draw(st.integers(0, 2)),
            "what": draw(st.sampled_from(["none", "name", "type", "label", "label_numeric", "count", "timestamp", "timestamp", "span", "order", "tg_span", "extra_tier"]))}


def _perturb_time(x):
    return x * (1 + 2e-6) + 2e-6


def run_equality(case):
    import copy

    spec = case["tg"]
    what = case["what"]
    a = mk_tg(spec)
    b = mk_tg(copy.deepcopy(spec))
    if not (a == a) or not (a == b) or not (b == a):
        raise Violation("equality-reflexive", "equal textgrids compare unequal")
    for x, y in zip(a.tiers, b.tiers):
        if not (x == y and y == x and x == x):
            raise Violation("equality-reflexive", "equal tiers compare unequal")
    if what == "none":
        return {"classes": ["equal"], "nontrivial": False}
    s2 = copy.deepcopy(spec)
    ti = case["tier"] % len(s2["tiers"])
    t = s2["tiers"][ti]
    cl = None
    if what == "name":
        t["name"] = t["name"] + "x"
        cl = "perturbed_name"
    elif what == "type":
        if t["type"] == "interval":
            t["entries"] = [[e[0], e[2]] for e in t["entries"]]
            t["type"] = "point"
        else:
            return {"classes": ["skip"], "nontrivial": False}
        cl = "perturbed_type"
    elif what == "span":
        t["maxT"] = _perturb_time(t["maxT"]) + 1.0
        cl = "perturbed_span"
    elif what == "tg_span":
        # only the textgrid's own span differs (a textgrid may be longer than all of its tiers)
        s2["maxT"] = s2["maxT"] + 1.5
        cl = "perturbed_textgrid_span_only"
    elif what == "extra_tier":
        # the other textgrid holds everything this one holds, and one tier more (same span)
        s2["tiers"].append({"type": "point", "name": "one_more", "entries": [], "minT": s2["minT"], "maxT": s2["maxT"], "style": s2.get("style")})
        cl = "perturbed_one_more_tier"
    elif what == "order":
        if len(s2["tiers"]) < 2:
            return {"classes": ["skip"], "nontrivial": False}
        s2["tiers"] = s2["tiers"][1:] + s2["tiers"][:1]
        cl = "perturbed_order"
    else:
        if not t["entries"]:
            return {"classes": ["skip"], "nontrivial": False}
        ei = case["entry"] % len(t["entries"])
        e = t["entries"][ei]
        if what == "label":
            e[-1] = e[-1] + "z"
            cl = "perturbed_label"
        elif what == "label_numeric":
            # another spelling of the same number is another label
            respell = {"132": "132.0", "7": "07", "1000": "1e3", "0": "-0"}
            cand = [x for x in t["entries"] if x[-1] in respell]
            if not cand:
                return {"classes": ["skip"], "nontrivial": False}
            cand[0][-1] = respell[cand[0][-1]]
            cl = "perturbed_numeric_label"
        elif what == "count":
            del t["entries"][ei]
            cl = "perturbed_count"
        else:
            fi = case["field"] % (len(e) - 1)
            # move the last timestamp of the last entry (keeps the tier well formed)
            e = t["entries"][-1]
            fi = len(e) - 2
            e[fi] = _perturb_time(e[fi])
            t["maxT"] = max(t["maxT"], e[fi])
            cl = "perturbed_timestamp"
    c = mk_tg(s2)
    # tier-level comparison of the perturbed tier
    if what not in ("order", "tg_span", "extra_tier"):
        x, y = a.tiers[ti], c.tiers[ti]
        if x == y or y == x:
            raise Violation(f"equality-misses:{what}", f"tiers differing in {what} compare equal: {snap_tier(x)} vs {snap_tier(y)}")
        if (x == y) != (y == x):
            raise Violation("equality-asymmetric", what)
    if a == c or c == a:
        if what == "span" and snap_tg(a)["maxT"] == snap_tg(c)["maxT"] and False:
            pass
        raise Violation(f"equality-misses:{what}", f"textgrids differing in {what} compare equal")
    if a == 5 or a.tiers[0] == "x":
        raise Violation("equality-foreign-type", "equal to a foreign object")
    return {"classes": [cl], "nontrivial": True}


# -------------------------------------------------------------------- validate


@st.composite
def validate_cases(draw):
    style = draw(gen.STYLES_ARITH)
    spec = draw(gen.textgrid(style=style, max_tiers=3, label=gen.AB))
    return {"tg": spec, "tier": draw(st.integers(0, 5)),
            "corruption": draw(st.sampled_from(["entry_out_by_one_ulp", "none", "none", "entry_out_by_one_ulp", "tier_max_bigger", "tier_max_smaller", "tier_min_bigger", "tg_max_bigger",
                                                "entry_out_of_span", "out_of_order", "inverted", "entry_out_by_one_ulp"]))}


def run_validate(case):
    p = P()
    spec, cor = case["tg"], case["corruption"]
    tg = mk_tg(spec)
    ti = case["tier"] % len(spec["tiers"])
    t = tg.tiers[ti]
    ts = spec["tiers"][ti]
    expect_tier = True
    expect_tg = True
    if cor == "tier_max_bigger":
        t.maxTimestamp = t.maxTimestamp + 1.0
        expect_tg = False
    elif cor == "tier_max_smaller":
        t.maxTimestamp = t.maxTimestamp - 0.0625
        expect_tg = False
        last = max([e[-2] for e in ts["entries"]], default=None)
        if last is not None and last > t.maxTimestamp:
            expect_tier = False
    elif cor == "tier_min_bigger":
        t.minTimestamp = t.minTimestamp + 0.0625
        expect_tg = False
        first = min([e[0] for e in ts["entries"]], default=None)
        if first is not None and first < t.minTimestamp:
            expect_tier = False
    elif cor == "tg_max_bigger":
        tg.maxTimestamp = tg.maxTimestamp + 1.0
        expect_tg = False
    elif cor == "entry_out_of_span":
        if ts["type"] == "interval":
            t._entries.append(p.Interval(t.maxTimestamp + 1.0, t.maxTimestamp + 2.0, "out"))
        else:
            t._entries.append(p.Point(t.maxTimestamp + 1.0, "out"))
        expect_tier = expect_tg = False
    elif cor == "entry_out_by_one_ulp":
        # the span ends one unit in the last place before the last entry does (everywhere, so that only the entry check can tell)
        if not ts["entries"] or ts["entries"][-1][-2] <= 0:
            return {"classes": ["skip"], "nontrivial": False}
        new_max = math.nextafter(ts["entries"][-1][-2], -math.inf)
        if any(e[-2] > new_max for k, tr in enumerate(spec["tiers"]) if k != ti for e in tr["entries"]) or new_max <= spec["minT"]:
            return {"classes": ["skip"], "nontrivial": False}
        for tr in tg.tiers:
            tr.maxTimestamp = new_max
        tg.maxTimestamp = new_max
        expect_tier = expect_tg = False
    elif cor == "out_of_order":
        if len(ts["entries"]) < 2:
            return {"classes": ["skip"], "nontrivial": False}
        t._entries.reverse()
        expect_tier = expect_tg = False
    elif cor == "inverted":
        if ts["type"] != "interval" or not ts["entries"]:
            return {"classes": ["skip"], "nontrivial": False}
        e = t._entries[0]
        t._entries[0] = p.Interval(e.end, e.start, e.label)
        expect_tier = expect_tg = False
    with quiet():
        got_tier = t.validate("silence")
        got_tg = tg.validate("silence")
    if got_tier is not expect_tier:
        raise Violation(f"validate-tier:{cor}", f"tier.validate() = {got_tier}, expected {expect_tier} after {cor}: {snap_tier(t)}")
    if got_tg is not expect_tg:
        raise Violation(f"validate-textgrid:{cor}", f"Textgrid.validate() = {got_tg}, expected {expect_tg} after {cor}")
    if not expect_tg:
        try:
            with quiet():
                tg.validate("error")
        except p.errors.PraatioException:
            note_accept("validate('error') raised")
        else:
            raise Violation("validate-error-mode", f"validate('error') did not raise after {cor}")
    return {"classes": ["corrupted" if cor != "none" else "clean", cor], "nontrivial": cor != "none"}


CHECKS = [
    Check("find", run_find, strategy=lambda tier: find_cases(), quick_n=1000, thorough_n=15000),
    Check("views", run_views, strategy=lambda tier: st.builds(lambda t, d: {"tier": t, "deletes": d},
                                                              st.one_of(gen.interval_tier(), gen.point_tier(), tiny_gap_tier()),
                                                              st.lists(st.integers(0, 7), max_size=2)),
          quick_n=800, thorough_n=12000, doc="timestamps, getNonEntries"),
    Check("values_in_intervals", run_values_in_intervals, strategy=lambda tier: vii_cases(), quick_n=800, thorough_n=12000),
    Check("values_at_points", run_values_at_points, strategy=lambda tier: vap_cases(), quick_n=1200, thorough_n=20000),
    Check("overlap_grid", run_overlap, kind="enum", enum=enum_overlap, exhaustive=True, distinct_by_construction=True,
          doc="all interval pairs over a 6-point lattice x thresholds x boundaryInclusive"),
    Check("overlap_random", run_overlap, strategy=lambda tier: overlap_cases(), quick_n=600, thorough_n=10000),
    Check("invert", run_invert, strategy=lambda tier: invert_cases(), quick_n=800, thorough_n=12000),
    Check("equality", run_equality, strategy=lambda tier: equality_cases(), quick_n=800, thorough_n=12000),
    Check("validate", run_validate, strategy=lambda tier: validate_cases(), quick_n=800, thorough_n=12000),
]
KNOWN = {}
