"""C05 - every reachable tier is well-formed (sorted, disjoint, inside its span)."""
from __future__ import annotations

from hypothesis import strategies as st

from vlib import gen, models, ops
from vlib.pio import P, mk_tier, snap_tier, quiet
from vlib.run import Check, Violation, note_accept, exc_origin

PROPERTY = "C05"
RULE = (
    "histories: 1-2 initial tiers (dyadic grid or non-dyadic decimals) followed by <=12 operations drawn from {construct "
    "(arbitrary unsorted entry lists, untrimmed labels, str/int times, inverted and overlapping intervals), crop, eraseRegion, "
    "insertSpace (incl. d<=0), editTimestamps, insertEntry (3 modes, 3 argument forms, untrimmed labels, a>=b), deleteEntry, "
    "union, difference, intersection, mergeLabels, appendTier, dejitter, morph, new}; operands chosen by selectors among the "
    "<=4 live tiers. Invariant after every step, for every live tier: entries sorted, start<end, no overlap, all timestamps "
    "inside [minTimestamp,maxTimestamp], labels trimmed, entries are Interval/Point, validate('silence') is True. An "
    "operation may instead raise a praatio error; a non-praatio exception is a violation unless the arguments were outside "
    "the documented domain. Non-trivial: >=3 successful steps including a colliding insertEntry, a shrinking eraseRegion, a "
    "splitting insertSpace, a merge/union, or a clipping editTimestamps. Check 'opened': textgrids rendered by the independent "
    "writer (vlib/tgspec.py) in the long, short and both JSON layouts are opened and every resulting tier must satisfy the same invariant."
)
ASSUMPTIONS = [
    "outside the documented domain (any exception accepted, but a returned tier must still be well-formed): insertSpace with "
    "duration<=0, insertEntry with start>=end, deleteEntry of an absent entry, dejitter with an empty reference, "
    "constructor with minT>maxT",
]
REQUIRED_CLASSES = ["opened:time_order_differs_from_text_order", "history:insert_entry_ok", "history:construct_ok", "history:erase_ok", "history:morph_ok",
                    "history:dejitter_ok", "history:untrimmed_label_inserted"]


def invariant(tier, what):
    p = P()
    snap = snap_tier(tier)
    models.check_wellformed(snap, what)
    want = "Interval" if snap["type"] == "interval" else "Point"
    if snap["entry_types"] not in ([], [want]):
        raise Violation("ill-formed", f"{what}: entries of type {snap['entry_types']}")
    for e in snap["entries"]:
        for x in e[:-1]:
            if not isinstance(x, (int, float)) or isinstance(x, bool):
                raise Violation("ill-formed", f"{what}: non-numeric timestamp {x!r}")
    with quiet():
        if tier.validate("silence") is not True:
            raise Violation("validate-disagrees", f"{what}: validate() is False for {snap}")


def run_history(case):
    tiers = [mk_tier(s) for s in case["init"]]
    classes = set()
    ok_steps = 0
    interesting = False
    for i, t in enumerate(tiers):
        invariant(t, f"initial tier {i}")
    for k, op in enumerate(case["ops"]):
        r = ops.apply_op(tiers, op)
        what = f"step {k} {op}"
        if r.status == "skipped":
            continue
        if r.status == "other_error":
            if r.in_domain:
                origin = exc_origin(r.exc) or "?"
                raise Violation(f"non-praatio-exception:{type(r.exc).__name__}@{origin}",
                                f"{what}: {type(r.exc).__name__}: {r.exc}")
            note_accept(f"out-of-domain:{op['op']}:{type(r.exc).__name__}")
        elif r.status == "praatio_error":
            note_accept(f"praatio:{op['op']}:{type(r.exc).__name__}")
            classes.add(f"{op['op']}_rejected")
        else:
            ok_steps += 1
            classes.add(f"{op['op']}_ok")
            if op["op"] == "insert_entry" and op["label"] != op["label"].strip():
                classes.add("untrimmed_label_inserted")
            if op["op"] in ("insert_entry", "union", "merge_labels", "morph", "dejitter") or \
               (op["op"] == "erase" and op["shrink"]) or (op["op"] == "insert_space" and op["mode"] == "split") or \
               (op["op"] == "edit" and op["offset"] < 0):
                interesting = True
        for i, t in enumerate(tiers):
            invariant(t, f"{what}: live tier {i}")
    return {"classes": sorted(classes), "nontrivial": ok_steps >= 3 and interesting}


def run_opened(case):
    """Tiers obtained by opening a file (written by the independent writer in any layout, or by the library itself)."""
    from vlib import iomodel
    from props import c03

    data = case["data"]
    cl = set()
    for layout in ("long", "short", "json", "textgrid_json"):
        text = c03.render(data, layout, case["num"], False)
        if layout in ("long", "short") and iomodel.reader_confusion(data, layout):
            continue  # the readers' known trouble with format keywords inside names/labels is C01/C03's subject
        try:
            tg = iomodel.open_bytes(text.encode("utf-8"), case["include_empty"], "error")
        except P().errors.PraatioException as e:
            note_accept(f"open:{type(e).__name__}")
            continue
        for t in tg.tiers:
            invariant(t, f"tier {t.name!r} of a {layout} file opened with includeEmptyIntervals={case['include_empty']}")
            ents = list(t.entries)
            if len(ents) >= 2 and [repr(e[0]) for e in ents] != sorted(repr(e[0]) for e in ents):
                cl.add("time_order_differs_from_text_order")
            cl.add("opened")
    return {"classes": sorted(cl), "nontrivial": "opened" in cl and any(t["entries"] for t in data["tiers"])}


@st.composite
def opened_cases(draw):
    from vlib import iomodel

    spec = draw(gen.io_textgrid(clean=draw(st.booleans()), styles=("dec", "wild", "wild", "grid")))
    data = iomodel.spec_to_data(spec)
    if draw(st.integers(0, 2)) == 0 and "pp" not in [t["name"] for t in data["tiers"]]:
        # times whose text forms sort differently from their values (2.75 < 9.5 < 10.25 < 100 but '10.25' < '100' < '2.75' < '9.5')
        ts = sorted(set(draw(st.lists(st.sampled_from([1e-05, 0.5, 2.75, 9.5, 10.25, 33.0, 100.0, 250.5, 1000.0]), min_size=2, max_size=5))))
        ts = [t for t in ts if t >= data["xmin"]]
        if ts:
            data["xmax"] = max(data["xmax"], ts[-1])
            if draw(st.booleans()):
                data["tiers"].append({"class": "TextTier", "name": "pp", "xmin": data["xmin"], "xmax": data["xmax"],
                                      "entries": [(t, draw(st.sampled_from(["a", "b", ""]))) for t in ts]})
            elif len(ts) >= 2:
                data["tiers"].append({"class": "IntervalTier", "name": "pp", "xmin": data["xmin"], "xmax": data["xmax"],
                                      "entries": [(a, b, draw(st.sampled_from(["a", "b", ""]))) for a, b in zip(ts, ts[1:])]})
    return {"data": data, "num": draw(st.sampled_from(["repr", "praat", "17", "exp"])),
            "include_empty": draw(st.booleans())}


CHECKS = [
    Check("opened", run_opened, strategy=lambda tier: opened_cases(), quick_n=400, thorough_n=6000,
          doc="tiers obtained by opening files in every layout: same invariant"),
    Check("history", run_history, strategy=lambda tier: ops.histories(12), quick_n=2000, thorough_n=25000,
          doc="operation histories, invariant after every step"),
]
KNOWN = {}
