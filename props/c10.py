"""C10 - tier set operations obey the algebra of labelled time."""
from __future__ import annotations

import itertools
from fractions import Fraction

import math

from hypothesis import strategies as st

from vlib import gen, models
from vlib.pio import P, mk_tier, mk_tg, snap_tier, snap_tg, quiet
from vlib.run import Check, Violation

PROPERTY = "C10"
RULE = (
    "enum: all ordered pairs (A,B) of interval tiers over 4 grid cells x 2 labels (quick: 153^2 pairs; thorough: 6 cells, "
    "2131^2 pairs) x {difference, intersection, union, mergeLabels}; all pairs of point tiers over 4 (5) time points x 2 labels "
    "for union; gen: random larger dyadic/decimal pairs incl. empty, identical, touching and nested entries, and "
    "Textgrid.mergeTiers over mixed textgrids. Oracle: elementary-segment model of the statement (these operations only "
    "compare and copy timestamps, so results are compared bit-for-bit), plus the derived laws time(diff) + time(inter) = "
    "time(A) and time(union) = time(A) u time(B) evaluated on the implementation's own outputs. Non-trivial: A and B both "
    "non-empty and at least one entry of A overlaps or touches an entry of B."
)
ASSUMPTIONS = [
    "'labels joined in time order' = by start time; entries with equal start may be joined in either order",
    "union's span is the hull of A's span and B's entries (C11: grows just enough); only checked to contain everything and to validate",
]
REQUIRED_CLASSES = ["pairs_grid:overlap", "pairs_grid:touching", "pairs_grid:nested", "pairs_random:identical", "pairs_random:nanosecond_offset", "pairs_random:operand_edited_in_place_before", "point_pairs_random:points_close_but_distinct"]


def _ents(spec):
    N = models.num_type(spec.get("style"))
    return [(N(s), N(e), l) for s, e, l in spec["entries"]]


def classify(A, B):
    cl = []
    if not A or not B:
        cl.append("empty_operand")
    if A and B and A == B:
        cl.append("identical")
    for s, e, _ in A:
        for bs, be, _ in B:
            if max(s, bs) < min(e, be):
                cl.append("overlap")
                if (s < bs and be < e) or (bs < s and e < be):
                    cl.append("nested")
            elif e == bs or be == s:
                cl.append("touching")
            if 0 < abs(s - bs) < 1e-8 or 0 < abs(e - be) < 1e-8:
                cl.append("nanosecond_offset")
    return sorted(set(cl))


def _cmp(res, want, what, name=None):
    snap = snap_tier(res)
    models.compare_entries(snap["entries"], want, True, [], what)
    models.check_wellformed(snap, what)
    with quiet():
        if res.validate("silence") is not True:
            raise Violation("invalid-result", f"{what}: validate() False")
    if name is not None and snap["name"] != name:
        raise Violation("tier-name", f"{what}: name {snap['name']!r} != {name!r}")
    return snap


def run_pair(case):
    A_s, B_s = case["A"], case["B"]
    ops = case.get("ops", ["difference", "intersection", "union", "mergeLabels"])
    A, B = mk_tier(A_s), mk_tier(B_s)
    if case.get("pre"):
        # the operand has been used (queries, crops) and then edited in place before the set operation
        with quiet():
            A.intersection(B), B.intersection(A)
        A_s = models.apply_pre(A, A_s, case["pre"].get("A"))
        B_s = models.apply_pre(B, B_s, case["pre"].get("B"))
    a0, b0 = snap_tier(A), snap_tier(B)
    edited = A_s is not case["A"] or B_s is not case["B"]
    EA, EB = _ents(A_s), _ents(B_s)
    cuts = sorted({t for s, e, _ in EA + EB for t in (s, e)})
    covA, covB = models.covered_cells(EA, cuts), models.covered_cells(EB, cuts)
    with quiet():
        got = {}
        if "difference" in ops:
            r = A.difference(B)
            s = _cmp(r, models.difference(EA, EB), "difference", A_s["name"])
            if (s["minT"], s["maxT"]) != (a0["minT"], a0["maxT"]):
                raise Violation("span", f"difference changed the span to [{s['minT']},{s['maxT']}]")
            got["d"] = s["entries"]
        if "intersection" in ops:
            r = A.intersection(B)
            s = _cmp(r, models.intersection(EA, EB), "intersection", f"{A_s['name']}-{B_s['name']}")
            got["i"] = s["entries"]
        if "mergeLabels" in ops:
            r = A.mergeLabels(B)
            _cmp(r, models.merge_labels(EA, EB), "mergeLabels", f"{A_s['name']}-{B_s['name']}")
        if "union" in ops:
            r = A.union(B)
            s = snap_tier(r)
            comps = models.union_components(EA, EB)
            if len(s["entries"]) != len(comps):
                raise Violation("entry-set", f"union: got {s['entries']}, expected components {[(float(c[0]), float(c[1])) for c in comps]}")
            for g, c in zip(s["entries"], comps):
                if g[0] != c[0] or g[1] != c[1]:
                    raise Violation("entry-set", f"union: got {s['entries']}, expected extents {[(float(c[0]), float(c[1])) for c in comps]}")
                allowed = models.union_label_options(c[2])
                if g[2] not in allowed:
                    raise Violation("label", f"union: label {g[2]!r} not in {sorted(allowed)} for component {c[2]}")
            models.check_wellformed(s, "union")
            if r.validate("silence") is not True:
                raise Violation("invalid-result", "union: validate() False")
            if s["minT"] > a0["minT"] or s["maxT"] < a0["maxT"]:
                raise Violation("span", f"union shrank A's span: [{s['minT']},{s['maxT']}]")
            got["u"] = s["entries"]
    if snap_tier(A) != a0 or snap_tier(B) != b0:
        raise Violation("operand-mutated", "a set operation changed one of its operands")
    # derived laws on the implementation's own outputs
    if "d" in got and "i" in got:
        cd, ci = models.covered_cells(got["d"], cuts), models.covered_cells(got["i"], cuts)
        if cd & ci or (cd | ci) != covA:
            raise Violation("law-partition", f"difference {got['d']} and intersection {got['i']} do not partition A's time")
    if "u" in got:
        cu = models.covered_cells(got["u"], cuts)
        if cu != (covA | covB):
            raise Violation("law-union", f"union {got['u']} does not cover exactly A u B")
    cl = classify(EA, EB) + (["operand_edited_in_place_before"] if edited else [])
    if EA and len(EA) == len(EB) and EA != EB and all(x[2] == y[2] and math.isclose(x[0], y[0]) and math.isclose(x[1], y[1]) for x, y in zip(EA, EB)):
        cl.append("almost_identical")
    nt = bool(EA) and bool(EB) and bool({"overlap", "touching"} & set(cl))
    return {"classes": cl, "nontrivial": nt}


def run_point_pair(case):
    A_s, B_s = case["A"], case["B"]
    A, B = mk_tier(A_s), mk_tier(B_s)
    a0, b0 = snap_tier(A), snap_tier(B)
    with quiet():
        r = A.union(B)
    s = snap_tier(r)
    want = {}
    for t, l in A_s["entries"]:
        want[t] = l
    for t, l in B_s["entries"]:
        want[t] = f"{want[t]}-{l}" if t in want else l
    exp = [[t, want[t]] for t in sorted(want)]
    models.compare_entries(s["entries"], exp, True, [], "point union")
    if snap_tier(A) != a0 or snap_tier(B) != b0:
        raise Violation("operand-mutated", "point union changed an operand")
    models.check_wellformed(s, "point union")
    with quiet():
        if r.validate("silence") is not True:
            raise Violation("invalid-result", f"point union: validate() False; span [{s['minT']},{s['maxT']}] entries {s['entries']}")
    ta, tb = {t for t, _ in A_s["entries"]}, {t for t, _ in B_s["entries"]}
    cl = []
    if ta & tb:
        cl.append("coinciding")
    if not ta or not tb:
        cl.append("empty_operand")
    if tb - ta and ta:
        cl.append("new_points")
    if any(x != y and math.isclose(x, y, abs_tol=1e-14) for x in ta for y in tb):
        cl.append("points_close_but_distinct")
    return {"classes": cl, "nontrivial": bool(ta) and bool(tb)}


def _check_merge_in_order(spec, res, sel, ints, pts, preserve):
    exp_names = []
    if preserve:
        exp_names += [t["name"] for t in spec["tiers"] if t not in sel]
    if ints:
        exp_names.append(ints[0]["name"])
    if pts:
        exp_names.append(pts[0]["name"])
    if list(res.tierNames) != exp_names:
        raise Violation("tier-names", f"mergeTiers: {list(res.tierNames)} != {exp_names}")
    if ints:
        acc = mk_tier(ints[0])
        with quiet():
            for t in ints[1:]:
                acc = acc.union(mk_tier(t))
        if snap_tier(res.getTier(ints[0]["name"])) != snap_tier(acc):
            raise Violation("merge-not-union", "merged interval tier differs from the fold of union")
        # and the fold of union itself against the model
        E = _ents(ints[0])
        for t in ints[1:]:
            comps = models.union_components(E, _ents(t))
            E = [(c[0], c[1], None) for c in comps]
        got = snap_tier(acc)["entries"]
        if [(g[0], g[1]) for g in got] != [(e[0], e[1]) for e in E]:
            raise Violation("entry-set", f"mergeTiers extents {got} != {[(float(e[0]), float(e[1])) for e in E]}")
    if pts:
        acc = mk_tier(pts[0])
        with quiet():
            for t in pts[1:]:
                acc = acc.union(mk_tier(t))
        if snap_tier(res.getTier(pts[0]["name"])) != snap_tier(acc):
            raise Violation("merge-not-union", "merged point tier differs from the fold of union")
        times = sorted({t for ts in pts for t, _ in ts["entries"]})
        if [g[0] for g in snap_tier(acc)["entries"]] != times:
            raise Violation("entry-set", "merged point tier does not hold exactly the union of the time points")


def run_merge_tiers(case):
    spec = case["tg"]
    names = case["names"]
    preserve = case["preserve"]
    tg = mk_tg(spec)
    before = snap_tg(tg)
    with quiet():
        res = tg.mergeTiers(names, preserve)
    if snap_tg(tg) != before:
        raise Violation("receiver-mutated", "mergeTiers changed its receiver")
    sel = [t for t in spec["tiers"] if names is None or t["name"] in names]
    # The statement fixes "via union" but not the order of the fold: the order the caller listed the names in (what
    # the code does) and the textgrid's own order are both accepted - the same one for interval and point tiers.
    byname = {t["name"]: t for t in spec["tiers"]}
    orders = [sel] if names is None else [[byname[n] for n in names], sel]
    failures = []
    ints = pts = []
    for order in orders:
        ints = [t for t in order if t["type"] == "interval"]
        pts = [t for t in order if t["type"] == "point"]
        try:
            _check_merge_in_order(spec, res, sel, ints, pts, preserve)
            failures = []
            break
        except Violation as v:
            failures.append(v)
    if failures:
        raise failures[0]
    if preserve:
        for t in spec["tiers"]:
            if t not in sel and snap_tier(res.getTier(t["name"])) != snap_tier(mk_tier(t)):
                raise Violation("other-tier-changed", t["name"])
    return {"classes": [f"ints{min(len(ints), 3)}", f"pts{min(len(pts), 3)}"], "nontrivial": len(ints) > 1 or len(pts) > 1}


# --------------------------------------------------------------- enumeration


def all_tiers(n):
    """All tiers over n unit grid cells, labels a/b."""
    def rec(start):
        yield []
        for s in range(start, n):
            for e in range(s + 1, n + 1):
                for l in "ab":
                    for rest in rec(e):
                        yield [[float(s), float(e), l]] + rest
    return list(rec(0))


def enum_pairs(tier, shard, nshards):
    n = 4 if tier == "quick" else 6
    tiers = all_tiers(n)
    specs = [{"type": "interval", "name": "A", "entries": t, "minT": 0.0, "maxT": float(n), "style": "grid"} for t in tiers]
    for i, A in enumerate(specs):
        if i % nshards != shard:
            continue
        for B in specs:
            yield {"A": A, "B": dict(B, name="B")}


def enum_point_pairs(tier, shard, nshards):
    n = 4 if tier == "quick" else 5
    tiers = []
    for k in range(0, n + 1):
        for comb in itertools.combinations(range(n), k):
            for labs in itertools.product("ab", repeat=k):
                tiers.append([[float(t), l] for t, l in zip(comb, labs)])
    specs = [{"type": "point", "name": "A", "entries": t, "minT": 0.0, "maxT": float(n - 1), "style": "grid"} for t in tiers]
    for i, A in enumerate(specs):
        if i % nshards != shard:
            continue
        for B in specs:
            yield {"A": A, "B": dict(B, name="B")}


# ---------------------------------------------------------------- generators


@st.composite
def pair_cases(draw):
    style = draw(gen.STYLES_ARITH)
    # labels that look like the output of an earlier union / mergeLabels are ordinary labels
    lab = st.sampled_from(["a", "b", "c", "x y", "", "a(b)", "b(a,c)", "a-b"])
    A = draw(gen.interval_tier(style=style, max_segments=8, label=lab, name="A"))
    r = draw(st.integers(0, 9))
    if r in (0, 9):
        B = dict(A, name="B")
        if style != "grid" and draw(st.booleans()):
            # almost A: every boundary within 1e-9 (relative) of A's, some entries a little shorter - thin rims remain
            ents = []
            for s0, e0, l in A["entries"]:
                ds, de = draw(st.sampled_from([0.0, 2e-10])), draw(st.sampled_from([0.0, 3e-10]))
                ents.append([s0 + ds * max(s0, 0.1), e0 - de * e0, l])
            if all(x[0] < x[1] for x in ents):
                B = dict(A, name="B", entries=ents)
    elif r <= 3:
        # B built from A's boundaries (touching / nested / shared edges)
        bs = {t for e in A["entries"] for t in e[:2]} | set(draw(gen.boundaries(style, 3)))
        if style != "grid" and draw(st.booleans()):
            # edges a few nanoseconds inside A's entries: labelled slivers are labelled time too
            bs |= {t + 5e-9 for e in A["entries"] for t in e[:1]} | {t - 5e-9 for e in A["entries"] for t in e[1:2] if t > 1e-6}
        if style != "grid" and draw(st.booleans()):
            # an overlap of a unit or two in the last place is an overlap
            bs |= {math.nextafter(t, -math.inf) for e in A["entries"] for t in e[1:2] if t > 1e-6} | {math.nextafter(math.nextafter(t, math.inf), math.inf) for e in A["entries"] for t in e[:1]}
        bs = sorted(bs)
        ents = []
        i = 0
        while i < len(bs) - 1:
            j = min(len(bs) - 1, i + draw(st.integers(1, 3)))
            if draw(st.booleans()):
                ents.append([bs[i], bs[j], draw(lab)])
            i = j
        B = {"type": "interval", "name": "B", "entries": ents, "minT": 0.0, "maxT": max([A["maxT"]] + bs), "style": style}
    else:
        B = draw(gen.interval_tier(style=style, max_segments=8, label=lab, name="B"))
    pre = None
    if draw(st.integers(0, 3)) == 0:
        one = st.one_of(st.none(), st.fixed_dictionaries({"delete": st.one_of(st.none(), st.integers(0, 7))}))
        pre = {"A": draw(one), "B": draw(one)}
    return {"A": A, "B": B, "pre": pre}


@st.composite
def point_pair_cases(draw):
    style = draw(gen.STYLES_ARITH)
    A = draw(gen.point_tier(style=style, name="A", label=gen.AB))
    if A["entries"] and draw(st.integers(0, 4)) == 2:
        # B's own span starts where A's ends, and both have a point on that instant
        last = A["entries"][-1][0]
        A = dict(A, maxT=last)
        B = {"type": "point", "name": "B", "entries": [[last, "b"], [last + 1.0, "a"]], "minT": last, "maxT": last + 2.0, "style": style}
        return {"A": A, "B": B}
    if A["entries"] and style != "grid" and draw(st.integers(0, 3)) == 0:
        # B's points lie beside A's at less than the library's fuzzy entry equality: different time points all the same
        ents = {}
        for t, l in A["entries"]:
            if draw(st.booleans()):
                t2 = draw(st.sampled_from([t * (1 + 4e-10), math.nextafter(t, math.inf), t + 2e-15, t]))
                ents[t2] = draw(gen.AB) if t2 != t else l
        B = {"type": "point", "name": "B", "entries": [[t, ents[t]] for t in sorted(ents)], "minT": 0.0,
             "maxT": max([A["maxT"]] + list(ents)), "style": style}
    elif draw(st.booleans()):
        B = draw(gen.point_tier(style=style, name="B", label=gen.AB))
    else:
        keep = [e for e in A["entries"] if draw(st.booleans())]
        extra = draw(gen.point_tier(style=style, name="B", label=gen.AB))
        ents = {t: l for t, l in extra["entries"]}
        ents.update({t: "b" for t, _ in keep})
        B = dict(extra, entries=[[t, ents[t]] for t in sorted(ents)],
                 maxT=max([extra["maxT"]] + list(ents)), minT=0.0)
    return {"A": A, "B": B}


@st.composite
def merge_cases(draw):
    spec = draw(gen.textgrid(max_tiers=5, label=gen.AB, min_tiers=1, clean=draw(st.integers(0, 2)) > 0))  # not clean: tiers with spans of their own
    allnames = [t["name"] for t in spec["tiers"]]
    if draw(st.booleans()):
        names = None
    else:
        names = [n for n in allnames if draw(st.booleans())]
        if draw(st.booleans()):
            names = list(draw(st.permutations(names)))
    return {"tg": spec, "names": names, "preserve": draw(st.booleans())}


CHECKS = [
    Check("pairs_grid", run_pair, kind="enum", enum=enum_pairs, exhaustive=True, distinct_by_construction=True,
          doc="all ordered pairs of tiers over 4 (6) cells x 2 labels x 4 operations"),
    Check("point_pairs_grid", run_point_pair, kind="enum", enum=enum_point_pairs, exhaustive=True,
          distinct_by_construction=True, doc="all ordered pairs of point tiers over 4 (5) times x 2 labels"),
    Check("pairs_random", run_pair, strategy=lambda tier: pair_cases(), quick_n=1500, thorough_n=25000),
    Check("point_pairs_random", run_point_pair, strategy=lambda tier: point_pair_cases(), quick_n=600, thorough_n=10000),
    Check("merge_tiers", run_merge_tiers, strategy=lambda tier: merge_cases(), quick_n=500, thorough_n=8000),
]
KNOWN = {}
