"""C08 - insertSpace opens exactly the requested gap and eraseRegion undoes it."""
from __future__ import annotations

import itertools
from fractions import Fraction

from hypothesis import strategies as st

from vlib import gen, models
from vlib.pio import P, mk_tier, mk_tg, snap_tier, snap_tg, quiet
from vlib.run import Check, Violation, note_accept

PROPERTY = "C08"
RULE = (
    "enum: every interval tier of <=3 (thorough <=4) intervals on the integer grid (labels all-distinct / all-equal) "
    "and every point tier of <=3 points x every s on the half-integer grid inside the span x d in {0.5,1,2.5} x "
    "{stretch,split,no_change,error}, and the composition insertSpace;eraseRegion(s,s+d,truncate,shrink); gen: random "
    "dyadic and non-dyadic decimal tiers/textgrids with s from boundaries, midpoints, span edges and arbitrary times, "
    "d from decimals. Oracle: exact-rational model of the statement (bit-for-bit on the grid, 4 ulp otherwise, never "
    "allowed to fail); inverse compared as label-at-every-time functions. Non-trivial: an interval straddles s or an "
    "entry starts exactly at s."
)
ASSUMPTIONS = [
    "split with an insertion point less than 4 ulp(end+d) before the straddled interval's end is skipped: the right-hand piece "
    "is not representable after the shift",
    "reference model vlib/models.py:insert_space_* is the reading of the statement",
    "inverse compared after merging adjacent same-labelled pieces (label-at-every-time function), 8 ulp on decimals",
]
REQUIRED_CLASSES = [
    "interval_grid:straddler",
    "interval_grid:entry_starts_at_s",
    "interval_random:decimal_straddler_split",
    "interval_random:straddler_followed_by_adjacent",
    "interval_random:after_in_place_edit",
    "interval_random:coinciding_points",
    "textgrid_random:s_beyond_a_tier",
]
MODES = ["stretch", "split", "no_change", "error"]


def classify(spec, s, mode):
    cl = []
    ents = spec["entries"]
    if spec["type"] == "interval":
        for i, e in enumerate(ents):
            if e[0] < s < e[1]:
                cl.append("straddler")
                if spec.get("style") != "grid" and mode == "split":
                    cl.append("decimal_straddler_split")
                if i + 1 < len(ents) and ents[i + 1][0] == e[1]:
                    cl.append("straddler_followed_by_adjacent")
        if any(e[0] == s for e in ents):
            cl.append("entry_starts_at_s")
        if any(e[1] == s for e in ents):
            cl.append("entry_ends_at_s")
    else:
        if len({e[0] for e in ents}) < len(ents):
            cl.append("coinciding_points")
        if any(e[0] == s for e in ents):
            cl.append("point_at_s")
        if any(e[0] > s for e in ents):
            cl.append("point_moves")
    return cl


def _model(spec, s, d, mode):
    N = models.num_type(spec.get("style"))
    if spec["type"] == "interval":
        return models.insert_space_interval(spec["entries"], s, d, mode, spec["maxT"], N)
    return models.insert_space_point(spec["entries"], s, d, spec["maxT"], N)


def _check_result(res, spec, s, d, mode, what):
    exact = spec.get("style") == "grid"
    N = models.num_type(spec.get("style"))
    m = _model(spec, s, d, mode)
    snap = snap_tier(res)
    ops = [s, d, spec["maxT"], spec["maxT"] + d]
    models.compare_entries(snap["entries"], m[1], exact, ops, what)
    models.cmp_num(snap["maxT"], m[2], exact, ops, f"{what} maxTimestamp")
    models.cmp_num(snap["minT"], N(spec["minT"]), True, ops, f"{what} minTimestamp")
    models.check_wellformed(snap, what)
    # entries ending at or before s are untouched bit for bit, also on decimals
    for g, w in zip(snap["entries"], spec["entries"]):
        if w[-2] <= s and spec["type"] == "interval" or (spec["type"] == "point" and w[0] <= s):
            if list(g) != list(w):
                raise Violation("entry-before-s-changed", f"{what}: {w} became {list(g)}")
    return snap


def _unrepresentable_split(spec, s, d, mode):
    """A right-hand piece narrower than the floating-point resolution at its shifted position cannot be
    represented by any implementation (s+d and end+d round to the same double): outside the domain."""
    import math

    if spec["type"] != "interval" or mode != "split":
        return False
    return any(e[0] < s < e[1] and (e[1] - s) <= 4 * math.ulp(e[1] + d) for e in spec["entries"])


def run_tier_case(case):
    p = P()
    spec, s, d, mode = case["tier"], case["s"], case["d"], case["mode"]
    tier = mk_tier(spec)
    spec = models.apply_pre(tier, spec, case.get("pre"))
    before = snap_tier(tier)
    classes = classify(spec, s, mode)
    if case.get("pre"):
        classes.append("after_in_place_edit")
    is_int = spec["type"] == "interval"
    what = f"insertSpace({s!r},{d!r},{mode})"
    m = _model(spec, s, d, mode)
    if _unrepresentable_split(spec, s, d, mode):
        return {"classes": ["skipped_unrepresentable_split_piece"], "nontrivial": False}
    try:
        with quiet():
            res = tier.insertSpace(s, d, mode)
    except p.errors.PraatioException as e:
        if m[0] == "rejected" and isinstance(e, p.errors.ArgumentError):
            note_accept("ArgumentError(error mode, straddler)")
            return {"classes": classes + ["rejected"], "nontrivial": True}
        raise Violation("failed-on-valid-input", f"{type(e).__name__}: {e} for {what} on {spec['entries']}")
    if m[0] == "rejected":
        raise Violation("straddler-not-rejected", f"{what}: mode 'error' with a straddling interval returned a tier")
    if snap_tier(tier) != before:
        raise Violation("receiver-mutated", "insertSpace changed its receiver")
    _check_result(res, spec, s, d, mode, what)

    # inverse
    if is_int and mode in ("stretch", "split"):
        try:
            with quiet():
                back = res.eraseRegion(s, s + d, "truncate", True)
        except p.errors.PraatioException as e:
            raise Violation("inverse-failed", f"{type(e).__name__}: {e} for {what}.eraseRegion({s!r},{s + d!r},'truncate',True) on {spec['entries']}")
        bs = snap_tier(back)
        models.check_wellformed(bs, "inverse")
        exact = spec.get("style") == "grid"
        tol = 0 if exact else Fraction(gen.ulp_tol(s, d, spec["maxT"] + d, k=8))
        f_orig = models.label_function(spec["entries"], 0)
        f_back = models.label_function(bs["entries"], tol)
        models.compare_entries(f_back, f_orig, exact, [s, d, spec["maxT"] + d], f"inverse of {what} (label function)", k=8)
        models.cmp_num(bs["maxT"], Fraction(spec["maxT"]), exact, [s, d, spec["maxT"] + d], "inverse maxTimestamp", k=8)
        if bs["minT"] != spec["minT"]:
            raise Violation("timestamp-changed", f"inverse minTimestamp {bs['minT']} != {spec['minT']}")
        if mode == "split":
            # after a split nothing lies inside the inserted gap (entries only touch it): every erase mode undoes it alike
            for m2 in ("categorical", "error"):
                try:
                    with quiet():
                        back2 = res.eraseRegion(s, s + d, m2, True)
                except p.errors.PraatioException as e:
                    raise Violation("inverse-failed", f"{type(e).__name__}: {e} for {what}.eraseRegion({s!r},{s + d!r},{m2!r},True) on {spec['entries']}")
                if snap_tier(back2) != bs:
                    raise Violation("inverse-mode-dependent", f"{what} undone with {m2!r}: {snap_tier(back2)['entries']} != with 'truncate': {bs['entries']}")
    nt = bool({"straddler", "entry_starts_at_s", "point_at_s"} & set(classes))
    return {"classes": classes, "nontrivial": nt}


def run_tg_case(case):
    p = P()
    spec, s, d, mode = case["tg"], case["s"], case["d"], case["mode"]
    tg = mk_tg(spec)
    before = snap_tg(tg)
    rejected = any(_model(t, s, d, mode)[0] == "rejected" for t in spec["tiers"])
    what = f"Textgrid.insertSpace({s!r},{d!r},{mode})"
    if any(_unrepresentable_split(t, s, d, mode) for t in spec["tiers"]):
        return {"classes": ["skipped_unrepresentable_split_piece"], "nontrivial": False}
    try:
        with quiet():
            res = tg.insertSpace(s, d, mode)
    except p.errors.PraatioException as e:
        if rejected and isinstance(e, p.errors.ArgumentError):
            note_accept("ArgumentError(error mode, straddler)")
            return {"classes": ["rejected"], "nontrivial": True}
        raise Violation("failed-on-valid-input", f"{type(e).__name__}: {e} for {what}")
    if rejected:
        raise Violation("straddler-not-rejected", what)
    if snap_tg(tg) != before:
        raise Violation("receiver-mutated", "Textgrid.insertSpace changed its receiver")
    if list(res.tierNames) != [t["name"] for t in spec["tiers"]]:
        raise Violation("tier-names", f"{res.tierNames}")
    classes = []
    for tspec, rt in zip(spec["tiers"], res.tiers):
        _check_result(rt, tspec, s, d, mode, f"tier {tspec['name']} of {what}")
        classes += classify(tspec, s, mode)
    exact = spec.get("style") == "grid"
    N = models.num_type(spec.get("style"))
    models.cmp_num(res.maxTimestamp, N(spec["maxT"]) + N(d), exact, [s, d, spec["maxT"] + d], "textgrid maxTimestamp")
    if res.minTimestamp != spec["minT"]:
        raise Violation("timestamp-changed", f"textgrid minTimestamp {res.minTimestamp} != {spec['minT']}")
    clean = all((t["minT"], t["maxT"]) == (spec["minT"], spec["maxT"]) for t in spec["tiers"])
    with quiet():
        if clean and res.validate("silence") is not True:
            raise Violation("invalid-result", f"{what} result does not validate")
    if not clean:
        classes.append("textgrid_longer_than_tiers")
        if any(s > t["maxT"] for t in spec["tiers"]):
            classes.append("s_beyond_a_tier")
            k = min(i for i, t in enumerate(spec["tiers"]) if s > t["maxT"])
            if any(spec["tiers"][k]["maxT"] < e[0] <= s for t in spec["tiers"][k + 1:] for e in t["entries"]):
                classes.append("s_beyond_an_earlier_tier_and_after_entries_of_a_later_one")
    if not spec["tiers"]:
        classes.append("textgrid_without_tiers")
    classes = sorted(set(classes))
    return {"classes": classes, "nontrivial": bool({"straddler", "entry_starts_at_s", "point_at_s"} & set(classes))}


# --------------------------------------------------------------- enumeration


def enum_interval(tier, shard, nshards):
    from props.c07 import _grid_tiers

    G, k = (5, 3) if tier == "quick" else (8, 4)
    vals = [x / 2 for x in range(0, 2 * G + 1)]
    i = 0
    for ents in _grid_tiers(G, k):
        i += 1
        if i % nshards != shard:
            continue
        spec = {"type": "interval", "name": "t", "entries": ents, "minT": 0.0, "maxT": float(G), "style": "grid"}
        for s in vals:
            for d in (0.5, 1.0, 2.5):
                for mode in MODES:
                    yield {"tier": spec, "s": s, "d": d, "mode": mode}


def enum_point(tier, shard, nshards):
    G = 4 if tier == "quick" else 6
    vals = [x / 2 for x in range(0, 2 * G + 1)]
    i = 0
    for k in range(0, 4):
        for comb in itertools.combinations(vals, k):
            i += 1
            if i % nshards != shard:
                continue
            spec = {"type": "point", "name": "p", "entries": [[t, "abcd"[j]] for j, t in enumerate(comb)],
                    "minT": 0.0, "maxT": float(G), "style": "grid"}
            for s in vals:
                for d in (0.5, 1.0):
                    yield {"tier": spec, "s": s, "d": d, "mode": "stretch"}


# ---------------------------------------------------------------- generators


@st.composite
def s_for(draw, entries_list, style, minT, maxT):
    bounds = sorted({t for ents in entries_list for en in ents for t in en[:-1]})
    cands = list(bounds) + [(x + y) / 2 for x, y in zip(bounds, bounds[1:])] + [minT, maxT]
    if style != "grid" and bounds:
        cands = cands + [v for b_ in bounds[:4] for v in gen.near_values(b_)]
    cands = [c for c in cands if minT <= c <= maxT]
    mids = [(x + y) / 2 for x, y in zip(bounds, bounds[1:])] or cands
    return draw(st.one_of(st.sampled_from(cands), st.sampled_from(mids),
                          gen.time_of(style).filter(lambda t: minT <= t <= maxT)))


def durations(style):
    if style == "grid":
        # also durations far below any sliver threshold (2**-30 s): still an insertion, and exact on the grid
        return st.one_of(st.integers(1, 40).map(lambda k: k / 8), st.integers(1, 40).map(lambda k: k / 8), st.sampled_from([2.0 ** -30, 2.0 ** -27]))
    return st.one_of(gen.dec_time(max_int=5).filter(lambda d: d > 0), gen.dec_time(max_int=5).filter(lambda d: d > 0), st.sampled_from([4e-9, 2.5e-10]))


@st.composite
def tier_cases(draw):
    style = draw(gen.STYLES_ARITH)
    spec = draw(st.one_of(gen.interval_tier(style=style, max_segments=7, label=gen.AB),
                          gen.interval_tier(style=style, max_segments=7),
                          gen.point_tier(style=style, dups=True)))
    s = draw(s_for([spec["entries"]], style, spec["minT"], spec["maxT"]))
    if spec["type"] == "interval" and style != "grid" and draw(st.integers(0, 5)) == 0:
        # two adjacent same-labelled intervals closer to each other than the library's fuzzy entry equality,
        # the insertion point strictly inside one of them
        b0 = max([e[1] for e in spec["entries"]] + [spec["minT"]]) + draw(st.sampled_from([0.0, 0.5]))
        w = max(b0, 1.0) * 3e-10
        spec["entries"] = spec["entries"] + [[b0, b0 + w, "a"], [b0 + w, b0 + 2 * w, "a"]]
        spec["maxT"] = max(spec["maxT"], b0 + 2 * w)
        s = b0 + w * draw(st.sampled_from([0.5, 1.5]))
    if spec["type"] == "point" and style != "grid" and draw(st.integers(0, 4)) == 0:
        # two same-labelled points closer than the library's fuzzy entry equality, the insertion point on the first or between them
        t0 = draw(st.integers(1, 40)) / 10 + 0.05
        w = t0 * 3e-10
        spec["entries"] = sorted([e for e in spec["entries"] if not t0 - 0.01 < e[0] < t0 + 0.01] + [[t0, "a"], [t0 + w, "a"]])
        spec["maxT"] = max(spec["maxT"], t0 + 1.0)
        spec["minT"] = min(spec["minT"], t0)
        s = draw(st.sampled_from([t0, t0 + w / 2]))
    pre = draw(st.one_of(st.none(), st.none(), st.fixed_dictionaries({"delete": st.one_of(st.none(), st.integers(0, 7))})))
    d = draw(durations(style))
    if style == "grid" and d >= 0.125 and draw(st.integers(0, 7)) == 0:
        # a time axis below zero, placed so that the lengthened tier ends exactly at 0 (or, half of the time, somewhere below)
        k = spec["maxT"] + d + draw(st.sampled_from([0.0, 0.0, 1.5]))
        spec = dict(spec, entries=[[x - k for x in e[:-1]] + [e[-1]] for e in spec["entries"]], minT=spec["minT"] - k, maxT=spec["maxT"] - k)
        s = s - k
    return {"tier": spec, "s": s, "d": d, "mode": draw(st.sampled_from(MODES)), "pre": pre}


@st.composite
def tg_cases(draw):
    style = draw(gen.STYLES_ARITH)
    spec = draw(gen.textgrid(style=style, max_tiers=4, label=gen.AB, clean=draw(st.integers(0, 2)) > 0))  # not clean: tiers of different lengths
    if draw(st.integers(0, 3)) == 0:
        spec["maxT"] = spec["maxT"] + 1.0  # a textgrid that is longer than its tiers
    s = draw(s_for([t["entries"] for t in spec["tiers"]], style, spec["minT"], spec["maxT"]))
    if draw(st.integers(0, 11)) == 0:
        spec = dict(spec, tiers=[])  # a textgrid with a span and no tier (yet): its span still grows by d
    return {"tg": spec, "s": s, "d": draw(durations(style)), "mode": draw(st.sampled_from(MODES))}


@st.composite
def straddle_cases(draw):
    """An insertion point strictly inside an interval that is followed by touching intervals, short
    decimals, stretch/split and the eraseRegion inverse: the rounding-sensitive paths."""
    d = draw(st.integers(1, 3))
    f = lambda k: float(f"{k}e-{d}")
    u = 10 ** d
    s0 = draw(st.integers(0, 3 * u))
    g = draw(st.lists(st.integers(1, 4 * u), min_size=2, max_size=2))
    sp, e0 = s0 + g[0], s0 + g[0] + g[1]
    ents = [[f(s0), f(e0), "x"]]
    cur = e0
    for lab in draw(st.lists(st.sampled_from(["y", "x", "z"]), min_size=1, max_size=3)):
        nxt = cur + draw(st.integers(1, 2 * u))
        ents.append([f(cur), f(nxt), lab])
        cur = nxt
    spec = {"type": "interval", "name": "t", "entries": ents, "minT": 0.0, "maxT": f(cur + draw(st.sampled_from([0, 0, u]))), "style": "dec"}
    return {"tier": spec, "s": f(sp), "d": f(draw(st.integers(1, 3 * u))), "mode": draw(st.sampled_from(["stretch", "split"]))}


CHECKS = [
    Check("interval_grid", run_tier_case, kind="enum", enum=enum_interval, exhaustive=True,
          distinct_by_construction=True, doc="all order types of <=3/4 intervals against s; + inverse"),
    Check("point_grid", run_tier_case, kind="enum", enum=enum_point, exhaustive=True,
          distinct_by_construction=True, doc="all point tiers of <=3 points"),
    Check("interval_random", run_tier_case, strategy=lambda tier: tier_cases(), quick_n=2500, thorough_n=40000,
          doc="random dyadic / decimal tiers, insertSpace and its inverse"),
    Check("textgrid_random", run_tg_case, strategy=lambda tier: tg_cases(), quick_n=600, thorough_n=12000,
          doc="Textgrid.insertSpace tier-wise + span + validate()"),
    Check("straddle_decimal", run_tier_case, strategy=lambda tier: straddle_cases(), quick_n=1500, thorough_n=25000,
          doc="insertion point strictly inside an interval with touching followers, 1-3 digit decimals, + inverse"),
]
KNOWN = {}
