"""C11 - insertEntry/deleteEntry follow the selected collision policy exactly."""
from __future__ import annotations

import itertools
import math

from hypothesis import strategies as st

from vlib import gen, models
from vlib.pio import P, mk_tier, snap_tier, quiet, fresh
from vlib.run import Check, Violation, note_accept

PROPERTY = "C11"
RULE = (
    "histories: an initial interval or point tier on a coarse lattice (k/8 or k/10, so that collisions are frequent) followed "
    "by 1..10 operations insertEntry(entry, collisionMode in {error,replace,merge}, collisionReportingMode in {silence,warning}; "
    "entry passed as Interval/Point, tuple or list; disjoint, touching, overlapping one or several, containing, contained, "
    "outside the span) and deleteEntry(existing entry chosen by selector | absent entry). After every step the tier's "
    "entries and span are compared exactly with a plain list model of the statement, and validate() must be True. Also an "
    "exhaustive single-insert enumeration over all order types on a small grid. Non-trivial: the history contains >=1 "
    "colliding insert and >=1 successful delete (single-insert enumeration: the insert collides)."
)
ASSUMPTIONS = [
    "merge label = labels of colliding entries and the new one joined with '-' by start time; equal starts may appear in either order",
    "absent entries differ from every present entry by far more than the library's fuzzy entry equality (rel 1e-9); present entries are "
    "identified exactly (two entries of a tier that are merely close to each other are different entries)",
    "deleteEntry of an absent entry must raise (any exception type)",
]
REQUIRED_CLASSES = ["history:insert_before_span_of_empty_tier", "history:collision_by_nanoseconds", "history:delete_absent_same_time", "history:collision_merge_many", "history:collision_replace", "history:delete_absent",
                    "history:insert_outside_span", "history:point_collision", "history:removed_entry_has_close_twin",
                    "history:point_one_ulp_beside_existing", "history:sticks_out_of_span_by_one_ulp"]


class Model:
    def __init__(self, spec):
        self.is_int = spec["type"] == "interval"
        self.entries = [tuple(e) for e in spec["entries"]]
        self.minT, self.maxT = spec["minT"], spec["maxT"]
        self.label_options = {}  # index -> allowed labels (merge ties)

    def matches(self, entry):
        if self.is_int:
            return [x for x in self.entries if max(x[0], entry[0]) < min(x[1], entry[1])]
        for x in self.entries:
            if x[0] == entry[0]:
                return [x]
        return []

    def insert(self, entry, mode):
        """-> ('ok'|'collision', allowed_new_labels)"""
        entry = tuple(entry)
        m = self.matches(entry)
        allowed = {entry[-1]}
        if m:
            if mode == "error":
                return "collision", None
            for x in m:
                self.entries.remove(x)
            if mode == "merge":
                if self.is_int:
                    members = [(x[0], x[1], x[2], "old") for x in m] + [(entry[0], entry[1], entry[2], "new")]
                    allowed = models.union_label_options(members)
                    entry = (min(x[0] for x in members), max(x[1] for x in members), None)
                else:
                    allowed = {f"{m[0][1]}-{entry[1]}"}
                    entry = (entry[0], None)
        self.entries.append(entry)
        self.entries.sort(key=lambda x: tuple(x[:-1]))
        lo = entry[0]
        hi = entry[1] if self.is_int else entry[0]
        self.minT, self.maxT = min(self.minT, lo), max(self.maxT, hi)
        return "ok", (entry, allowed)

    def resolve(self, entry, label):
        i = self.entries.index(entry)
        self.entries[i] = tuple(list(entry[:-1]) + [label])


def _compare(tier, model: Model, what):
    snap = snap_tier(tier)
    got = [tuple(e) for e in snap["entries"]]
    if got != model.entries:
        raise Violation("state-differs", f"{what}: tier {got} != model {model.entries}")
    if (snap["minT"], snap["maxT"]) != (model.minT, model.maxT):
        raise Violation("span-differs", f"{what}: span [{snap['minT']},{snap['maxT']}] != model [{model.minT},{model.maxT}]")
    models.check_wellformed(snap, what)
    want_ts = sorted({x for e in model.entries for x in e[:-1]})
    if list(tier.timestamps) != want_ts:
        raise Violation("timestamps-stale", f"{what}: tier.timestamps {list(tier.timestamps)} != {want_ts}")
    with quiet():
        if tier.validate("silence") is not True:
            raise Violation("invalid-state", f"{what}: validate() False")
    want_type = "Interval" if model.is_int else "Point"
    if snap["entry_types"] not in ([], [want_type]):
        raise Violation("entry-type", f"{what}: entries of type {snap['entry_types']}")


def _has_close_twin(model, targets):
    """An earlier, different entry of the tier is equal to a target under the library's fuzzy entry equality."""
    for x in targets:
        for y in model.entries:
            if y == x:
                break
            if y[-1] == x[-1] and all(math.isclose(a, b) for a, b in zip(y[:-1], x[:-1])):
                return True
    return False


def run_history(case):
    p = P()
    spec = case["tier"]
    tier = mk_tier(spec)
    model = Model(spec)
    classes = set()
    n_coll = n_del = 0
    _compare(tier, model, "initial")
    for k, op in enumerate(case["ops"]):
        what = f"step {k} {op}"
        if op["op"] == "insert":
            entry = op["entry"]
            if op.get("near_sel") is not None and model.entries:
                e0 = model.entries[-1 - (op["near_sel"] % len(model.entries))]
                if model.is_int:
                    entry = [e0[0], e0[1], entry[-1]]
                else:
                    t = {0: e0[0], 1: math.nextafter(e0[0], math.inf), 2: math.nextafter(e0[0], -math.inf)}[op.get("near_var", 0)]
                    entry = [t if t >= 0 else e0[0], entry[-1]]
                    if t != e0[0]:
                        classes.add("point_one_ulp_beside_existing")
                what = f"step {k} {op} -> entry {entry}"
            elif op.get("span_ulp") == "max":
                hi_ = math.nextafter(model.maxT, math.inf)
                entry = [min(entry[0], model.maxT - 0.25), hi_, entry[-1]] if model.is_int else [hi_, entry[-1]]
                classes.add("sticks_out_of_span_by_one_ulp")
                what = f"step {k} {op} -> entry {entry}"
            elif op.get("span_ulp") == "min" and model.minT > 0:
                lo_ = math.nextafter(model.minT, -math.inf)
                entry = [lo_, max(entry[1], model.minT + 0.25), entry[-1]] if model.is_int else [lo_, entry[-1]]
                classes.add("sticks_out_of_span_by_one_ulp")
                what = f"step {k} {op} -> entry {entry}"
            form = op.get("form", "obj")
            raw_entry = list(entry)
            entry = list(entry[:-1]) + [entry[-1].strip()]
            if raw_entry[-1] != entry[-1]:
                classes.add("untrimmed_label_given")
            if form == "obj":
                arg = (p.Interval if model.is_int else p.Point)(*raw_entry)
            elif form == "tuple":
                arg = tuple(raw_entry)
            else:
                arg = list(raw_entry)
            m = model.matches(tuple(entry))
            before = snap_tier(tier)
            lo, hi = entry[0], (entry[1] if model.is_int else entry[0])
            if lo < model.minT or hi > model.maxT:
                classes.add("insert_outside_span")
                if lo < model.minT and not model.entries:
                    classes.add("insert_before_span_of_empty_tier")
            try:
                with quiet() as out:
                    tier.insertEntry(arg, fresh(op["mode"]), fresh(op["report"]))
            except p.errors.CollisionError:
                if m and op["mode"] == "error":
                    note_accept("CollisionError(error mode)")
                    if snap_tier(tier) != before:
                        raise Violation("not-atomic", f"{what}: CollisionError but the tier changed")
                    classes.add("collision_error")
                    n_coll += 1
                    continue
                raise Violation("spurious-collision", f"{what}: CollisionError with matches {m}")
            if m and _has_close_twin(model, m):
                classes.add("removed_entry_has_close_twin")
            status, info = model.insert(entry, op["mode"])
            if status == "collision":
                raise Violation("collision-not-raised", f"{what}: collides with {m} but no CollisionError")
            new_entry, allowed = info
            if m and model.is_int and any(0 < min(x[1], entry[1]) - max(x[0], entry[0]) < 1e-8 for x in m):
                classes.add("collision_by_nanoseconds")
            if m:
                n_coll += 1
                classes.add("point_collision" if not model.is_int else
                            f"collision_{op['mode']}" + ("_many" if len(m) > 1 else ""))
                if model.is_int and (any(x[0] < entry[0] and x[1] > entry[1] for x in m)):
                    classes.add("new_contained_in_old")
                if model.is_int and (any(x[0] > entry[0] and x[1] < entry[1] for x in m)):
                    classes.add("new_contains_old")
            elif model.is_int and any(x[1] == entry[0] or x[0] == entry[1] for x in model.entries):
                classes.add("touching_insert")
            if op["report"] == "silence" and out.getvalue() != "":
                raise Violation("silence-not-silent", f"{what}: printed {out.getvalue()!r}")
            # resolve the label of the (possibly merged) new entry
            got = [tuple(e) for e in snap_tier(tier)["entries"]]
            cand = [g for g in got if tuple(g[:-1]) == tuple(new_entry[:-1])]
            if len(cand) != 1 or cand[0][-1] not in allowed:
                raise Violation("new-entry", f"{what}: expected one entry at {new_entry[:-1]} labelled one of {sorted(allowed)}, tier has {got}")
            model.resolve(new_entry, cand[0][-1])
        else:
            if op.get("absent") or not model.entries:
                if model.entries and op.get("absent") in ("same_time", "padded"):
                    # absent, but at the time(s) of an existing entry: only the label differs (for "padded": by white space only -
                    # stored labels are trimmed, so an untrimmed one names no stored entry)
                    e0 = model.entries[op["sel"] % len(model.entries)]
                    entry = tuple(list(e0[:-1]) + [e0[-1] + "_other" if op["absent"] == "same_time" else " " + e0[-1] + "\n"])
                    classes.add("delete_absent_same_time" if op["absent"] == "same_time" else "delete_absent_label_differs_by_white_space")
                elif model.is_int:
                    entry = (1000.0 + op["sel"], 1001.5 + op["sel"], "zz")
                else:
                    entry = (1000.5 + op["sel"], "zz")
                before = snap_tier(tier)
                try:
                    tier.deleteEntry((p.Interval if model.is_int else p.Point)(*entry))
                except Exception:  # noqa - "raises if it is absent"
                    note_accept("deleteEntry(absent) raised")
                    if snap_tier(tier) != before:
                        raise Violation("not-atomic", f"{what}: failed delete changed the tier")
                    classes.add("delete_absent")
                    continue
                raise Violation("delete-absent-accepted", f"{what}: deleting the absent entry {entry} did not raise")
            entry = model.entries[op["sel"] % len(model.entries)]
            if _has_close_twin(model, [entry]):
                classes.add("removed_entry_has_close_twin")
            tier.deleteEntry((p.Interval if model.is_int else p.Point)(*entry))
            model.entries.remove(entry)
            n_del += 1
            classes.add("delete")
        _compare(tier, model, what)
    return {"classes": sorted(classes), "nontrivial": n_coll >= 1 and n_del >= 1}


def run_single_insert(case):
    info = run_history({"tier": case["tier"], "ops": [case["op"]]})
    info["nontrivial"] = any(c.startswith("collision") for c in info["classes"])
    return info


# ------------------------------------------------------------------ generate


def lattice(style):
    if style == "grid":
        return st.integers(0, 48).map(lambda k: k / 8)
    return st.integers(0, 60).map(lambda k: float(f"{k}e-1"))


@st.composite
def histories(draw):
    style = draw(st.sampled_from(["grid", "dec"]))
    is_int = draw(st.integers(0, 2)) > 0
    lat = lattice(style)
    lab = st.sampled_from(["a", "b", "c", "", "x y"])
    ins_lab = st.sampled_from(["a", "b", "c", "", "x y", " a", "b ", " x y\n", "{noise}", "{}", "a{", "%s"])  # stored trimmed, like every label
    n0 = draw(st.integers(0, 5))
    if is_int:
        bs = sorted(draw(st.lists(lat, min_size=2 * n0, max_size=2 * n0, unique=True)))
        ents = []
        i = 0
        while i + 1 < len(bs):
            ents.append([bs[i], bs[i + 1], draw(lab)])
            i += 1 if draw(st.booleans()) else 2
        # i += 1 makes touching intervals: next starts where this one ends
        ents2 = []
        for e in ents:
            if not ents2 or e[0] >= ents2[-1][1]:
                ents2.append(e)
        spec = {"type": "interval", "name": draw(st.sampled_from(["t", "t", "{t}", "100%"])), "entries": ents2, "minT": min([e[0] for e in ents2] + [draw(st.sampled_from([0.0, 0.0, 2.0]))]),
                "maxT": max([e[1] for e in ents2] + [draw(st.sampled_from([1.0, 3.0]))]), "style": style}
    else:
        ts = sorted(draw(st.lists(lat, min_size=n0, max_size=n0, unique=True)))
        spec = {"type": "point", "name": "p", "entries": [[t, draw(lab)] for t in ts], "minT": min(ts + [draw(st.sampled_from([0.0, 0.0, 2.0]))]),
                "maxT": max(ts + [draw(st.sampled_from([1.0, 3.0]))]), "style": style}
    if spec["maxT"] <= spec["minT"]:
        spec["maxT"] = spec["minT"] + 1.0
    twins = style == "dec" and draw(st.integers(0, 3)) == 0
    if twins:
        # entries closer to each other than the library's fuzzy entry equality (rel. 1e-9) and with the same label:
        # distinct entries of a well-formed tier all the same
        lb = draw(lab)
        if is_int:
            b0 = max([e[1] for e in spec["entries"]] + [spec["minT"]]) + draw(st.sampled_from([0.0, 0.5]))
            d = max(b0, 1.0) * 3e-10
            spec["entries"] += [[b0, b0 + d, lb], [b0 + d, b0 + 2 * d, lb]]
            spec["maxT"] = max(spec["maxT"], b0 + 2 * d)
        else:
            t0 = draw(st.integers(1, 60)) / 10 + 0.05
            d = draw(st.sampled_from([math.ulp(t0), t0 * 3e-10]))
            spec["entries"] = sorted(spec["entries"] + [[t0, lb], [t0 + d, lb]])
            spec["maxT"] = max(spec["maxT"], t0 + d)
            spec["minT"] = min(spec["minT"], t0)
    ops = []
    for _ in range(draw(st.integers(1, 10))):
        if draw(st.integers(0, 3)) > 0:
            if is_int:
                a, b = draw(lat), draw(lat)
                if a == b:
                    b = a + 0.5
                a, b = min(a, b), max(a, b)
                r = draw(st.integers(0, 9))
                if r == 0 and a >= 1e-6:
                    a = a - 5e-9  # reaches a few nanoseconds into whatever ends at the lattice point
                elif r == 1:
                    b = b + 5e-9
                entry = [a, b, draw(ins_lab)]
            else:
                entry = [draw(lat), draw(ins_lab)]
            ops.append({"op": "insert", "entry": entry, "mode": draw(st.sampled_from(["error", "replace", "merge", "merge"])),
                        "report": draw(st.sampled_from(["silence", "warning"])),
                        "form": draw(st.sampled_from(["obj", "tuple", "list"]))})
            if style == "dec" and draw(st.integers(0, 2 if twins else 5)) == 0:
                # placed relative to an entry the tier holds at that step (from the end: that is where the twins are):
                # exactly on it, or one unit in the last place beside it (which is a different time)
                ops[-1].update(near_sel=draw(st.integers(0, 3)), near_var=draw(st.sampled_from([0, 0, 1, 2])))
            elif style == "dec" and draw(st.integers(0, 7)) == 0:
                # the new entry sticks out of the span the tier has at that step by one unit in the last place
                ops[-1].update(span_ulp=draw(st.sampled_from(["max", "max", "min"])))
        else:
            ops.append({"op": "delete", "sel": draw(st.integers(0, 7)),
                        "absent": draw(st.sampled_from([False, False, False, True, "same_time", "padded"]))})
            if twins and draw(st.booleans()):
                ops[-1]["sel"] = -1 - draw(st.integers(0, 2))
    return {"tier": spec, "ops": ops}


def enum_single(tier, shard, nshards):
    from props.c06 import grid_interval_tiers

    G, k = (5, 3) if tier == "quick" else (7, 4)
    vals = [x / 2 for x in range(-2, 2 * (G + 1) + 1)]
    i = 0
    for ents in grid_interval_tiers(G, k):
        i += 1
        if i % nshards != shard:
            continue
        spec = {"type": "interval", "name": "t", "entries": ents, "minT": 0.0, "maxT": float(G), "style": "grid"}
        for a, b in itertools.combinations(vals, 2):
            for mode in ("error", "replace", "merge"):
                yield {"tier": spec, "op": {"op": "insert", "entry": [a, b, "n"], "mode": mode, "report": "silence", "form": "obj"}}


CHECKS = [
    Check("history", run_history, strategy=lambda tier: histories(), quick_n=2500, thorough_n=40000,
          doc="insert/delete histories vs list model, compared after every step"),
    Check("single_insert_grid", run_single_insert, kind="enum", enum=enum_single, exhaustive=True,
          distinct_by_construction=True, doc="every order type of one new interval against <=3/4 existing ones x 3 modes"),
]
KNOWN = {}
