"""C09 - time shifting and concatenation move every entry by exactly the stated amount."""
from __future__ import annotations

from fractions import Fraction

from hypothesis import strategies as st

from vlib import gen, models
from vlib.pio import P, mk_tier, mk_tg, snap_tier, snap_tg, quiet
from vlib.run import Check, Violation, note_accept

PROPERTY = "C09"
RULE = (
    "gen: interval/point tiers (dyadic grid and non-dyadic decimals, including empty tiers) x offsets drawn from "
    "{0, +-entry starts, +-entry ends, midpoints, beyond everything, arbitrary} x reportingMode in {silence,warning,error}; "
    "pairs (A,B) of tiers and of textgrids with equal, overlapping and disjoint name sets, empty operands, "
    "onlyMatchingNames in {True,False}. Oracle: exact-rational shift-and-clip model of the statement (bit-for-bit on the grid, "
    "4 ulp on decimals), stdout captured for the reporting clause, +x then -x round trip. Non-trivial: an entry is clipped "
    "or dropped, or an operand is or becomes empty, or the tier-name sets differ, or an entry leaves the old span."
)
ASSUMPTIONS = [
    "'leaves the old span' is judged on the shifted (unclipped) entry, as the library documents for reportingMode",
    "for tiers that exist only in A, appendTextgrid's tier span is not pinned by the statement and is not compared",
]
REQUIRED_CLASSES = ["edit_tg:tg_leaves_span", "edit:clipped", "edit:dropped", "edit:becomes_empty", "edit:empty_tier", "edit:leaves_span",
                    "append_tg:names_differ", "append_tier:empty_B", "append_tg:A_starts_after_zero"]


def model_edit(spec, off):
    """-> entries, minT, maxT, leaves_old_span, classes"""
    N = models.num_type(spec.get("style"))
    o = N(off)
    lo, hi = N(spec["minT"]), N(spec["maxT"])
    out, leaves, cl = [], False, set()
    if spec["type"] == "interval":
        for s, e, l in spec["entries"]:
            ns, ne = N(s) + o, N(e) + o
            # judged on the correctly rounded sums (what any float implementation sees)
            if float(ns) < spec["minT"] or float(ne) > spec["maxT"]:
                leaves = True
            if ne <= 0:
                cl.add("dropped")
                continue
            if ns < 0:
                ns = N(0)
                cl.add("clipped")
            out.append((ns, ne, l))
        if out:
            lo, hi = min(lo, out[0][0]), max(hi, out[-1][1])
    else:
        for t, l in spec["entries"]:
            nt = N(t) + o
            if float(nt) < spec["minT"] or float(nt) > spec["maxT"]:
                leaves = True
            if nt < 0:
                cl.add("dropped")
                continue
            out.append((nt, l))
        if out:
            lo, hi = min(lo, out[0][0]), max(hi, out[-1][0])
    if not spec["entries"]:
        cl.add("empty_tier")
    elif not out:
        cl.add("becomes_empty")
    if leaves:
        cl.add("leaves_span")
    return out, lo, hi, leaves, cl


def run_edit(case):
    p = P()
    spec, off, mode = case["tier"], case["offset"], case["mode"]
    tier = mk_tier(spec)
    before = snap_tier(tier)
    want, lo, hi, leaves, cl = model_edit(spec, off)
    exact = spec.get("style") == "grid"
    what = f"editTimestamps({off!r},{mode})"
    try:
        with quiet() as out:
            res = tier.editTimestamps(off, mode)
    except p.errors.OutOfBounds as e:
        if mode == "error" and leaves:
            note_accept("OutOfBounds(error mode)")
            if snap_tier(tier) != before:
                raise Violation("receiver-mutated", what)
            return {"classes": sorted(cl | {"raised"}), "nontrivial": True}
        raise Violation("spurious-out-of-bounds", f"{what}: {e}")
    if mode == "error" and leaves:
        raise Violation("out-of-bounds-not-raised", f"{what}: entries leave [{spec['minT']},{spec['maxT']}] but no OutOfBounds")
    if snap_tier(tier) != before:
        raise Violation("receiver-mutated", what)
    txt = out.getvalue()
    if mode == "silence" and txt:
        raise Violation("silence-not-silent", f"{what} printed {txt!r}")
    if mode == "warning" and bool(txt) != leaves:
        raise Violation("warning-mismatch", f"{what}: leaves_old_span={leaves} but printed {txt!r}")
    snap = snap_tier(res)
    ops = [off, spec["maxT"], spec["maxT"] + abs(off)]
    models.compare_entries(snap["entries"], want, exact, ops, what)
    models.cmp_num(snap["minT"], lo, exact, ops, f"{what} minTimestamp")
    models.cmp_num(snap["maxT"], hi, exact, ops, f"{what} maxTimestamp")
    if snap["minT"] > before["minT"] or snap["maxT"] < before["maxT"]:
        raise Violation("span-shrank", f"{what}: [{snap['minT']},{snap['maxT']}] from [{before['minT']},{before['maxT']}]")
    models.check_wellformed(snap, what)
    if snap["name"] != spec["name"]:
        raise Violation("tier-name", what)
    # +x then -x
    if off > 0 and want:
        with quiet():
            back = res.editTimestamps(-off, "silence")
        bs = snap_tier(back)
        N = models.num_type(spec.get("style"))
        orig = [tuple([N(x) for x in e[:-1]] + [e[-1]]) for e in spec["entries"]]
        models.compare_entries(bs["entries"], orig, exact, ops, f"{what} then -x", k=8)
    return {"classes": sorted(cl), "nontrivial": bool(cl)}


def run_append_tier(case):
    p = P()
    A_s, B_s = case["A"], case["B"]
    A, B = mk_tier(A_s), mk_tier(B_s)
    a0, b0 = snap_tier(A), snap_tier(B)
    what = "appendTier"
    try:
        with quiet():
            res = A.appendTier(B)
    except p.errors.ArgumentError:
        if A_s["type"] != B_s["type"]:
            note_accept("ArgumentError(type mismatch)")
            return {"classes": ["type_mismatch"], "nontrivial": True}
        raise Violation("failed-on-valid-input", "appendTier raised ArgumentError for equal tier types")
    if A_s["type"] != B_s["type"]:
        raise Violation("type-mismatch-accepted", "appendTier joined an interval tier and a point tier")
    if snap_tier(A) != a0 or snap_tier(B) != b0:
        raise Violation("operand-mutated", what)
    N = models.num_type(A_s.get("style"))
    exact = A_s.get("style") == "grid"
    off = N(A_s["maxT"])
    want = [tuple([N(x) for x in e[:-1]] + [e[-1]]) for e in A_s["entries"]]
    want += [tuple([N(x) + off for x in e[:-1]] + [e[-1]]) for e in B_s["entries"]]
    want.sort()  # coinciding points at the joint: order among equal times is not pinned by the statement
    snap = snap_tier(res)
    ops = [A_s["maxT"], B_s["maxT"], A_s["maxT"] + B_s["maxT"]]
    models.compare_entries(snap["entries"], want, exact, ops, what)
    # A's entries unchanged bit for bit
    got_set = [list(g) for g in snap["entries"]]
    for w in A_s["entries"]:
        if list(w) not in got_set:
            raise Violation("a-entry-changed", f"{w} of A is not in the result {got_set}")
    models.cmp_num(snap["maxT"], off + N(B_s["maxT"]), exact, ops, "appendTier maxTimestamp")
    models.cmp_num(snap["minT"], N(A_s["minT"]), True, ops, "appendTier minTimestamp")
    models.check_wellformed(snap, what)
    if snap["name"] != A_s["name"]:
        raise Violation("tier-name", what)
    cl = []
    if A_s["entries"] and B_s["entries"] and A_s["type"] == "point" and A_s["entries"][-1][0] == A_s["maxT"] and B_s["entries"][0][0] == 0 \
            and A_s["entries"][-1][-1] == B_s["entries"][0][-1]:
        cl.append("equal_points_meet_at_joint")
    if not B_s["entries"]:
        cl.append("empty_B")
    if not A_s["entries"]:
        cl.append("empty_A")
    return {"classes": cl, "nontrivial": bool(cl) or bool(B_s["entries"])}


def run_append_tg(case):
    p = P()
    A_s, B_s, only = case["A"], case["B"], case["only"]
    A, B = mk_tg(A_s), mk_tg(B_s)
    a0, b0 = snap_tg(A), snap_tg(B)
    what = f"appendTextgrid(onlyMatchingNames={only})"
    with quiet():
        res = A.appendTextgrid(B, only)
    if snap_tg(A) != a0 or snap_tg(B) != b0:
        raise Violation("operand-mutated", what)
    an = [t["name"] for t in A_s["tiers"]]
    bn = [t["name"] for t in B_s["tiers"]]
    if only:
        exp = [n for n in an if n in bn]
    else:
        exp = an + [n for n in bn if n not in an]
    if list(res.tierNames) != exp:
        raise Violation("tier-set", f"{what}: {list(res.tierNames)} != {exp}")
    N = models.num_type(A_s.get("style"))
    exact = A_s.get("style") == "grid"
    off = N(A_s["maxT"])
    total = off + N(B_s["maxT"])
    ops = [A_s["maxT"], B_s["maxT"], A_s["maxT"] + B_s["maxT"]]
    models.cmp_num(res.maxTimestamp, total, exact, ops, f"{what} textgrid maxTimestamp")
    models.cmp_num(res.minTimestamp, N(A_s["minT"]), True, ops, f"{what} textgrid minTimestamp")
    ta = {t["name"]: t for t in A_s["tiers"]}
    tb = {t["name"]: t for t in B_s["tiers"]}
    for n in exp:
        want = []
        if n in ta:
            want += [tuple([N(x) for x in e[:-1]] + [e[-1]]) for e in ta[n]["entries"]]
        if n in tb:
            want += [tuple([N(x) + off for x in e[:-1]] + [e[-1]]) for e in tb[n]["entries"]]
        want.sort()
        snap = snap_tier(res.getTier(n))
        models.compare_entries(snap["entries"], want, exact, ops, f"{what} tier {n!r}")
        models.check_wellformed(snap, f"{what} tier {n!r}")
        if n in tb:
            models.cmp_num(snap["maxT"], total, exact, ops, f"{what} tier {n!r} maxTimestamp")
    cl = []
    if set(an) != set(bn):
        cl.append("names_differ")
    if not set(an) & set(bn):
        cl.append("names_disjoint")
    if any(not t["entries"] for t in B_s["tiers"]):
        cl.append("empty_tier_in_B")
    if A_s["minT"] > 0:
        cl.append("A_starts_after_zero")
    return {"classes": cl, "nontrivial": True}


def run_edit_tg(case):
    """Textgrid.editTimestamps: tier-wise result, span, and the reporting clause at textgrid level."""
    p = P()
    spec, off, mode = case["tg"], case["offset"], case["mode"]
    tg = mk_tg(spec)
    before = snap_tg(tg)
    models_ = [model_edit(t, off) for t in spec["tiers"]]
    leaves = any(m[3] for m in models_)
    lo = min([Fraction(spec["minT"])] + [Fraction(m[1]) for m in models_])
    hi = max([Fraction(spec["maxT"])] + [Fraction(m[2]) for m in models_])
    grows = lo < Fraction(spec["minT"]) or hi > Fraction(spec["maxT"])
    what = f"Textgrid.editTimestamps({off!r},{mode})"
    try:
        with quiet() as out:
            res = tg.editTimestamps(off, mode)
    except p.errors.PraatioException as e:
        if mode == "error" and (leaves or grows):
            if snap_tg(tg) != before:
                raise Violation("receiver-mutated", what)
            return {"classes": ["tg_raised"], "nontrivial": True}
        raise Violation("failed-on-valid-input", f"{what}: {type(e).__name__}: {e}")
    if mode == "error" and leaves:
        raise Violation("out-of-bounds-not-raised", f"{what}: entries leave the old span but nothing was raised")
    if snap_tg(tg) != before:
        raise Violation("receiver-mutated", what)
    txt = out.getvalue()
    if mode == "silence" and txt:
        raise Violation("silence-not-silent", f"{what} printed {txt!r}")
    if mode == "warning" and leaves and not txt:
        raise Violation("warning-mismatch", f"{what}: entries leave the old span but nothing was printed")
    if mode == "warning" and not leaves and not grows and txt:
        raise Violation("warning-mismatch", f"{what}: nothing leaves its span, yet {txt!r} was printed")
    if list(res.tierNames) != [t["name"] for t in spec["tiers"]]:
        raise Violation("tier-set", f"{what}: {res.tierNames}")
    exact = spec.get("style") == "grid"
    ops_ = [off, spec["maxT"], spec["maxT"] + abs(off)]
    for t, m, rt in zip(spec["tiers"], models_, res.tiers):
        models.compare_entries(snap_tier(rt)["entries"], m[0], exact, ops_, f"{what} tier {t['name']!r}")
    cl = ["tg_edit"] + (["tg_leaves_span"] if leaves else [])
    if len({(t["minT"], t["maxT"]) for t in spec["tiers"]}) > 1:
        cl.append("tiers_with_different_spans")
    return {"classes": cl, "nontrivial": leaves or any(m[4] for m in models_)}


@st.composite
def edit_tg_cases(draw):
    style = draw(gen.STYLES_ARITH)
    spec = draw(gen.textgrid(style=style, max_tiers=3, clean=draw(st.integers(0, 2)) > 0))  # not clean: tiers with spans of their own
    ts = sorted({t for tr in spec["tiers"] for e in tr["entries"] for t in e[:-1]})
    cands = [0.0, 0.5, 1.0, 2.0] + [-t for t in ts]
    return {"tg": spec, "offset": draw(st.sampled_from(cands)), "mode": draw(st.sampled_from(["silence", "silence", "warning", "error"]))}


# ---------------------------------------------------------------- generators


# one-decimal intervals for which start + (end - start) is not end (a shift done "by duration" moves their end by an ulp)
_ROUNDING_SENSITIVE = [(s / 10, e / 10) for s in range(0, 40) for e in range(s + 1, 60) if s / 10 + (e / 10 - s / 10) != e / 10]


@st.composite
def edit_cases(draw):
    style = draw(gen.STYLES_ARITH)
    spec = draw(st.one_of(gen.interval_tier(style=style), gen.point_tier(style=style)))
    if style != "grid" and draw(st.integers(0, 5)) == 0:
        # a tier annotated right up to its end, shifted by nothing (or by a little): nothing leaves, nothing is reported
        s0, e0 = draw(st.sampled_from(_ROUNDING_SENSITIVE))
        ents = ([[0.0, s0, "a"]] if s0 > 0 and draw(st.booleans()) else []) + [[s0, e0, "b"]]
        spec = {"type": "interval", "name": "t", "entries": ents, "minT": 0.0, "maxT": e0, "style": style}
        return {"tier": spec, "offset": draw(st.sampled_from([0.0, 0.0, 0])), "mode": draw(st.sampled_from(["error", "warning", "silence"]))}
    ts = sorted({t for e in spec["entries"] for t in e[:-1]})
    mids = [(x + y) / 2 for x, y in zip(ts, ts[1:])]
    cands = [0.0] + [-t for t in ts] + [-m for m in mids] + [-(spec["maxT"] + 1.0), 0.5, 1.0]
    if style != "grid":
        # something is left reaching a few nanoseconds past 0 (it is clipped, not dropped), or ends a few nanoseconds before 0
        cands += [-(t - 4e-9) for t in ts if t > 1e-6] + [-(t + 4e-9) for t in ts]
        # a shift so small that what leaves the span leaves it by less than 1e-9 of its length: it still leaves it
        cands += [4e-9, max(spec["maxT"], 1.0) * 3e-10] * 2 + ([-spec["minT"] * 3e-10] if spec["minT"] > 0 else [])
        # an entry lands exactly on the old end of the span (nothing leaves it)
        cands += [spec["maxT"] - t for t in ts if 0 < spec["maxT"] - t] * 2
    off = draw(st.one_of(st.sampled_from(cands), gen.time_of(style), gen.time_of(style).map(lambda t: -t)))
    return {"tier": spec, "offset": off, "mode": draw(st.sampled_from(["silence", "warning", "error"]))}


@st.composite
def append_tier_cases(draw):
    style = draw(gen.STYLES_ARITH)
    mk = lambda nm: st.one_of(gen.interval_tier(style=style, name=nm), gen.interval_tier(style=style, name=nm),
                              gen.point_tier(style=style, name=nm))
    A = draw(mk("A"))
    B = draw(mk("B"))
    if draw(st.integers(0, 9)) > 0 and A["type"] != B["type"]:
        B = draw(gen.interval_tier(style=style, name="B") if A["type"] == "interval" else gen.point_tier(style=style, name="B"))
    if A["type"] == B["type"] == "point" and draw(st.integers(0, 3)) == 0 and B["minT"] == 0:
        # a point on A's end and a point on B's start with the same label: two equal entries meet at the joint
        lab = draw(st.sampled_from(["a", "b", ""]))
        A["entries"] = [e for e in A["entries"] if e[0] != A["maxT"]] + [[A["maxT"], lab]]
        B["entries"] = [[0.0, lab]] + [e for e in B["entries"] if e[0] != 0.0]
    return {"A": A, "B": B}


@st.composite
def append_tg_cases(draw):
    style = draw(gen.STYLES_ARITH)
    A = draw(gen.textgrid(style=style, max_tiers=3, late_start=True))
    B = draw(gen.textgrid(style=style, max_tiers=3))
    # rename B's tiers: same name (type forced equal), or a fresh name
    types = {t["name"]: t["type"] for t in A["tiers"]}
    used = set()
    for i, t in enumerate(B["tiers"]):
        r = draw(st.integers(0, 2))
        cand = [n for n, ty in types.items() if ty == t["type"] and n not in used]
        if r > 0 and cand:
            t["name"] = draw(st.sampled_from(cand))
        else:
            t["name"] = f"b{i}"
        used.add(t["name"])
    if draw(st.integers(0, 9)) == 0:
        B = dict(B, tiers=[])  # nothing annotated in B, but B has a length
    return {"A": A, "B": B, "only": draw(st.booleans())}


CHECKS = [
    Check("edit", run_edit, strategy=lambda tier: edit_cases(), quick_n=2500, thorough_n=40000),
    Check("edit_tg", run_edit_tg, strategy=lambda tier: edit_tg_cases(), quick_n=700, thorough_n=10000),
    Check("append_tier", run_append_tier, strategy=lambda tier: append_tier_cases(), quick_n=1000, thorough_n=15000),
    Check("append_tg", run_append_tg, strategy=lambda tier: append_tg_cases(), quick_n=700, thorough_n=10000),
]
KNOWN = {}
