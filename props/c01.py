"""C01 - TextGrid save/open round trip preserves every tier, time and label; fixed point."""
from __future__ import annotations

import copy

from hypothesis import strategies as st

from vlib import gen, iomodel, tgspec
from vlib.iomodel import FORMATS
from vlib.pio import P, mk_tg, quiet
from vlib.run import Check, Violation, note_accept

PROPERTY = "C01"
RULE = (
    "gen: validate-clean textgrids of 1-4 interval/point tiers (empty tiers, empty-labelled entries, unique names) with names "
    "and labels from a weighted alphabet (quotes, doubled quotes, newlines, '=', digits, brackets, BMP/astral Unicode, combining "
    "marks, non-LF line separators), whole format tokens ('item [2]:', '\"IntervalTier\"', 'text = \"x\"', '1e-05', ...) and "
    "arbitrary st.text(); timestamps dyadic, decimal, 17-digit, near-integers (n +- k ulp), tiny (1e-17..1e-4, exponent "
    "notation) and large (..1e15); x 4 formats x includeBlankSpaces x includeEmptyIntervals (all 16 combinations per case); "
    "span-mismatched textgrids with includeBlankSpaces=False. Oracle: reopened textgrid equals the expectation derived from the "
    "statement (entries + blanks - empty-labelled) with bit-identical timestamps or the allowed integer rounding, and "
    "re-saving reproduces the text. Non-trivial: >=1 entry and (a label/name with a quote, newline, '=', digit, non-ASCII or "
    "format token, or a tiny / near-integer / non-dyadic / >=1e6 timestamp)."
)
ASSUMPTIONS = [
    "distinct boundaries of one tier are kept > 4e-14*t apart so that the rounding the statement allows cannot collapse an interval",
    "blank filling uses minimumIntervalLength=None, or the default 1e-8 on textgrids whose smallest gap between boundaries is >= 1e-6 (so nothing may be absorbed) (sliver absorption is C04's subject)",
    "textgrids whose tiers have their own spans: includeBlankSpaces=True is only combined with includeEmptyIntervals=False (kept blanks would legitimately widen the tier)",
    "fixed point is not asserted for includeEmptyIntervals=False when the input carries explicitly empty-labelled entries",
]
REQUIRED_CLASSES = ["roundtrip:label_quote", "roundtrip:label_newline", "roundtrip:time_tiny", "roundtrip:time_near_integer",
                    "roundtrip:point_label_quote"]


def classify(spec):
    cl = set()
    for t in spec["tiers"]:
        texts = [t["name"]] + [e[-1] for e in t["entries"]]
        for s in texts:
            if '"' in s:
                cl.add("label_quote")
                if t["type"] == "point" and s != t["name"]:
                    cl.add("point_label_quote")
            if "\n" in s:
                cl.add("label_newline")
            if any(tok in s for tok in gen.FORMAT_TOKENS):
                cl.add("format_token")
            if any(ord(c) > 127 for c in s):
                cl.add("non_ascii")
            if "=" in s or any(c.isdigit() for c in s):
                cl.add("label_eq_digit")
        for e in t["entries"]:
            for x in e[:-1]:
                if 0 < x < 1e-4:
                    cl.add("time_tiny")
                if x >= 1e6:
                    cl.add("time_large")
                if x != int(x) and abs(x - round(x)) <= 1e-13 * max(abs(x), 1):
                    cl.add("time_near_integer")
                if (x * 1024) != int(x * 1024):
                    cl.add("time_non_dyadic")
        if not t["entries"]:
            cl.add("empty_tier")
        if t["type"] == "point" and len({e[0] for e in t["entries"]}) < len(t["entries"]):
            cl.add("coinciding_points")
        if len(t["entries"]) >= 200:
            cl.add("tier_with_hundreds_of_entries")
    return cl


def expected(spec, fmt, blanks, include_empty):
    data = iomodel.spec_to_data(spec)
    for t in data["tiers"]:
        if blanks and t["class"] == "IntervalTier":
            t["entries"] = iomodel.fill_blanks(t["entries"], data["xmin"], data["xmax"])
        if not include_empty:
            t["entries"] = [e for e in t["entries"] if e[-1] != ""]
    return data


def _in_memory_order(spec, tg):
    """Points at one instant: the statement compares the reopened textgrid with the one in memory, so their
    order is taken from the tier in memory (the same points - that is checked here - in whatever order it holds them)."""
    out = dict(spec, tiers=[])
    for t, tier in zip(spec["tiers"], tg.tiers):
        times = [e[0] for e in t["entries"]]
        if t["type"] == "point" and len(set(times)) < len(times):
            mem = [list(e) for e in tier.entries]
            if sorted(map(tuple, mem)) != sorted((float(e[0]), e[1]) for e in t["entries"]):
                raise Violation("constructor-changed-entries", f"tier {t['name']!r}: {mem} from {t['entries']}")
            t = dict(t, entries=mem)
        out["tiers"].append(t)
    return out


def run_roundtrip(case):
    p = P()
    spec = case["tg"]
    if case.get("pad"):
        # the caller's labels carry white space the tier trims (str.strip(): also U+00A0, U+2028, U+3000 ...)
        import copy
        padded = copy.deepcopy(spec)
        for t in padded["tiers"]:
            for e in t["entries"]:
                if e[-1]:
                    e[-1] = case["pad"] + e[-1] + case["pad"]
        tg = mk_tg(padded)
    else:
        tg = mk_tg(spec)
    spec = _in_memory_order(spec, tg)
    clean = all((t["minT"], t["maxT"]) == (spec["minT"], spec["maxT"]) for t in spec["tiers"])
    has_explicit_empty = any(e[-1] == "" for t in spec["tiers"] for e in t["entries"])
    cl = classify(spec)
    combos = [(f, b, ie) for f in FORMATS for b in (True, False) for ie in (True, False)]
    data0 = iomodel.spec_to_data(spec)
    confusable = {"short_textgrid": iomodel.reader_confusion(data0, "short"),
                  "long_textgrid": iomodel.reader_confusion(data0, "long")}
    suppressed = []
    mil = case.get("mil", "none")
    for fmt, blanks, ie in combos:
        if not clean and (fmt == "json" or (blanks and ie)):
            # per-tier spans: json keeps one span by design; blanks that are kept on reading (ie=True)
            # legitimately widen a tier whose span is narrower than the textgrid's
            continue
        try:
            _one_combo(tg, spec, fmt, blanks, ie, has_explicit_empty, clean, mil)
        except Violation as v:
            if confusable.get(fmt):
                # candidate for the known finding (decided by the runner through KNOWN);
                # keep checking the other formats so that nothing else hides behind it
                suppressed.append(v)
                continue
            raise
    if suppressed:
        cl.add("reader_confusable_failed")
        raise suppressed[0]
    if any(confusable.values()):
        cl.add("reader_confusable_passed")
    nt = any(t["entries"] for t in spec["tiers"]) and bool(cl - {"empty_tier"})
    if not clean:
        cl.add("span_mismatch")
    return {"classes": sorted(cl), "nontrivial": nt}


def _one_combo(tg, spec, fmt, blanks, ie, has_explicit_empty, clean=True, mil="none"):
    kw = {} if mil == "default" else {"minimumIntervalLength": None}
    if True:
        what = f"save({fmt}, includeBlankSpaces={blanks}) -> open(includeEmptyIntervals={ie})"
        text1 = iomodel.save_text(tg, fmt, blanks, **kw)
        try:
            tg2 = iomodel.open_bytes(text1.encode("utf-8"), ie)
        except Exception as e:  # noqa
            raise Violation(f"reopen-failed:{fmt}:{type(e).__name__}", f"{what}: {type(e).__name__}: {e}; text={text1[:300]!r}")
        got = iomodel.tg_to_data(tg2)
        want = expected(spec, fmt, blanks and clean, ie)  # not clean: only ie=False gets here and the blanks are dropped on reading
        try:
            iomodel.compare_data(got, want, what, json_single_span=(fmt == "json"))
        except Violation as v:
            raise Violation(f"{v.clause}:{fmt}", v.message)
        if ie or not has_explicit_empty:
            text2 = iomodel.save_text(tg2, fmt, blanks, **kw)
            if text2 != text1:
                i = next((k for k in range(min(len(text1), len(text2))) if text1[k] != text2[k]), min(len(text1), len(text2)))
                raise Violation(f"not-a-fixed-point:{fmt}", f"{what}: re-saved text differs at offset {i}: {text1[max(0, i-30):i+30]!r} vs {text2[max(0, i-30):i+30]!r}")


@st.composite
def cases(draw):
    clean = draw(st.integers(0, 5)) > 0
    tg = draw(gen.io_textgrid(clean=clean))
    if draw(st.integers(0, 4)) == 0:
        # several points at one instant, given in any order of their labels
        for t in tg["tiers"]:
            if t["type"] == "point" and t["entries"] and draw(st.booleans()):
                k = draw(st.integers(0, len(t["entries"]) - 1))
                extra = [t["entries"][k][0], draw(st.sampled_from(["a", "Z", "tone", "burst", t["entries"][k][1] + "x"]))]
                if extra[1] != t["entries"][k][1]:
                    t["entries"].insert(k + draw(st.integers(0, 1)), extra)
    if draw(st.integers(0, 15)) == 0:
        # one long tier (some hundred entries), as real annotation files have
        n_big = draw(st.integers(260, 330))
        hi = max(tg["maxT"], n_big * 0.25)
        if draw(st.booleans()):
            big = {"type": "interval", "name": "big", "entries": [[i * 0.25, (i + 1) * 0.25, "abc"[i % 3]] for i in range(1, n_big) if i % 7 != 3],
                   "minT": tg["minT"], "maxT": hi, "style": "grid"}
        else:
            big = {"type": "point", "name": "big", "entries": [[(i + 1) * 0.25, "abc"[i % 3]] for i in range(n_big - 1)],
                   "minT": tg["minT"], "maxT": hi, "style": "grid"}
        if "big" not in [t["name"] for t in tg["tiers"]] and tg["minT"] <= 0.25:
            clean_now = all((t["minT"], t["maxT"]) == (tg["minT"], tg["maxT"]) for t in tg["tiers"])
            tg["tiers"].append(big)
            tg["maxT"] = hi
            if clean_now:
                for t in tg["tiers"]:
                    t["maxT"] = hi
    # the default minimumIntervalLength (1e-8) is used where no interval or gap can be that short
    mil = "default" if gen.min_gap(tg) >= 1e-6 and draw(st.integers(0, 2)) > 0 else "none"
    return {"tg": tg, "mil": mil, "pad": draw(st.sampled_from([None, None, None, "\u00a0", "\u3000", "\u2028", "\x1c", " "]))}


CHECKS = [
    Check("roundtrip", run_roundtrip, strategy=lambda tier: cases(), quick_n=500, thorough_n=4000, fuzz_runs=6000,
          doc="each case is saved and reopened in all 16 format/flag combinations"),
]


def selftest():
    tgspec.selftest()


def _known_keyword(check, case, v):
    """Known finding: a name/label containing a structural token of the text format being read
    derails praatio's regex/offset based reader for that format."""
    fmt = v.clause.rsplit(":", 2)
    data0 = iomodel.spec_to_data(case["tg"])
    for f, layout in (("short_textgrid", "short"), ("long_textgrid", "long")):
        if f":{f}" in v.clause and iomodel.reader_confusion(data0, layout):
            return True
    return False


KNOWN = {"C01-keyword-in-text": _known_keyword}
