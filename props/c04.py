"""C04 - saving adds only blanks and absorbs only sub-threshold slivers."""
from __future__ import annotations

import math

from hypothesis import strategies as st

from vlib import gen, iomodel, tgspec
from vlib.iomodel import FORMATS
from vlib.pio import P, mk_tg, quiet, tmpdir
from vlib.run import Check, Violation, note_accept

PROPERTY = "C04"
RULE = (
    "gen: one interval tier built as a sequence of pieces (labelled interval | empty-labelled interval | gap) whose lengths are "
    "multiples {0.01,0.5,0.9,1.1,2,5,1e3,...} of the threshold (so slivers of 1e-10..9e-9 around the 1e-8 default occur at the "
    "start, in the middle, at the end and in chains), offset 0/0.5/1/3.7, plus a point tier; x minimumIntervalLength in {None, "
    "1e-8 (default), 0.001, 0.06, and the dyadic 0.0625 / 0.25 with pieces exactly that long} x min/max overrides below / equal to / above the data span (and inside it: must raise) x 4 "
    "formats x includeBlankSpaces. Oracle: the file is decoded with the independent reader; with theta=None the written tier "
    "is exactly the partition P induced by entries and gaps; with theta given every written interval is a union of consecutive "
    "pieces of P containing exactly one piece >= theta whose label it carries, all such pieces appear in order and nothing "
    "shorter than theta is written; overrides become the file span or the save raises a praatio error and leaves no file; "
    "without blank filling entries are verbatim. Non-trivial: >=1 sub-threshold piece next to a long piece, or an override."
)
ASSUMPTIONS = [
    "cases where the float length end-start of a piece and its exact rational length disagree about reaching the threshold, or where no piece reaches it, are skipped and counted "
    "(the statement's demands are rounding-dependent / contradictory there)",
    "a sliver may be absorbed into either neighbour",
]
REQUIRED_CLASSES = ["slivers:piece_exactly_theta", "slivers:sliver_first", "slivers:sliver_middle", "slivers:sliver_last", "slivers:sliver_chain",
                    "slivers:override_ok", "slivers:override_rejected", "slivers:theta_none"]


def pieces_of(entries, lo, hi):
    """Partition of [lo,hi] induced by entries and gaps -> [(start, end, label|None)]."""
    out = []
    cur = lo
    for s, e, l in entries:
        if s > cur:
            out.append((cur, s, None))
        out.append((s, e, l))
        cur = e
    if cur < hi:
        out.append((cur, hi, None))
    return out


def _same_entries(got, want):
    """Equal up to the integer rounding of numbers that C01 allows."""
    if len(got) != len(want):
        return False
    for g, w in zip(got, want):
        if g[-1] != w[-1] or len(g) != len(w) or not all(iomodel.num_rel(b, a) for a, b in zip(g[:-1], w[:-1])):
            return False
    return True


def check_absorption(got_entries, P_, theta, what):
    """got_entries: decoded [[s,e,l]] of one interval tier."""
    bounds = [P_[0][0]] + [p[1] for p in P_]

    def find(x):
        # a written number may be the allowed integer rounding of a boundary (C01)
        for i, b in enumerate(bounds):
            if iomodel.num_rel(b, x):
                return i
        return None

    pos = 0  # index into P_
    for s, e, l in got_entries:
        i, j = find(s), find(e)
        if i is None or j is None:
            raise Violation("boundary-invented", f"{what}: written interval {[s, e, l]} has a boundary that is no entry/gap boundary {bounds}")
        if i != pos or j <= i:
            raise Violation("not-a-partition", f"{what}: written intervals {got_entries} do not tile the span piecewise (at {[s, e, l]})")
        members = P_[i:j]
        longs = [m for m in members if (m[1] - m[0]) >= theta]
        if len(longs) != 1:
            raise Violation("absorption", f"{what}: written interval {[s, e, l]} is made of pieces {members}: {len(longs)} of them reach the threshold {theta}")
        want = longs[0][2] or ""
        if l != want:
            raise Violation("label-lost", f"{what}: written interval {[s, e, l]} should carry the label {want!r} of its long piece {longs[0]}")
        if not (bounds[j] - bounds[i]) >= theta:  # judged on the in-memory boundaries (a written one may be integer-rounded)
            raise Violation("short-interval-written", f"{what}: {[s, e, l]} is shorter than {theta}")
        pos = j
    if pos != len(P_):
        raise Violation("not-a-partition", f"{what}: written intervals {got_entries} stop before the end of the span")


def run_case(case):
    p = P()
    spec = case["tg"]
    theta = case["theta"]
    tg = mk_tg(spec)
    if case.get("late_entry"):
        # the first tier grows after it was added (tier.insertEntry does not tell the textgrid): the textgrid's stored span
        # is stale, the data now ends later - an override that cuts into the new entry still cuts into the data
        import copy
        hi0 = spec["maxT"]
        late = [hi0 + 0.5, hi0 + 1.0, "late"]
        with quiet():
            tg.tiers[0].insertEntry(tuple(late), "error", "silence")
        spec = copy.deepcopy(spec)
        spec["tiers"][0]["entries"].append(late)
    kw = {}
    if case["min_override"] is not None:
        kw["minTimestamp"] = case["min_override"]
    if case["max_override"] is not None:
        kw["maxTimestamp"] = case["max_override"]
    lo = kw.get("minTimestamp", spec["minT"])
    hi = kw.get("maxTimestamp", spec["maxT"])
    it = spec["tiers"][0]
    all_times = [x for t in spec["tiers"] for e in t["entries"] for x in e[:-1]]
    outside = bool(all_times) and (min(all_times) < lo or max(all_times) > hi)
    cl = set()
    eff = 1e-8 if theta == "default" else theta
    if eff is None:
        cl.add("theta_none")
    P_ = pieces_of(it["entries"], lo, hi) if not outside and lo < hi else []
    if eff is not None and P_:
        lens = [b - a for a, b, _ in P_]
        from fractions import Fraction as _F

        # a piece is 'at least theta long' by the float difference every implementation computes; only pieces for
        # which the exact rational length disagrees with that verdict are rounding-dependent and skipped
        if any((x >= eff) != (_F(b) - _F(a) >= _F(eff)) for x, (a, b, _) in zip(lens, P_)):
            return {"classes": ["skipped_borderline"], "nontrivial": False}
        if any(x == eff for x in lens):
            cl.add("piece_exactly_theta")
        if not any(x >= eff for x in lens):
            return {"classes": ["skipped_all_short"], "nontrivial": False}
        short = [x < eff for x in lens]
        if short[0]:
            cl.add("sliver_first")
        if short[-1]:
            cl.add("sliver_last")
        if any(short[1:-1]):
            cl.add("sliver_middle")
        if any(a and b for a, b in zip(short, short[1:])):
            cl.add("sliver_chain")
        if any(s and P_[i][2] for i, s in enumerate(short)):
            cl.add("labelled_sliver")
    for blanks in (True, False):
        for fmt in FORMATS:
            what = f"save({fmt}, blanks={blanks}, theta={theta}, {kw})"
            import os

            fn = os.path.join(tmpdir(), "c04.TextGrid")
            if os.path.exists(fn):
                os.remove(fn)
            args = dict(kw)
            if theta != "default":
                args["minimumIntervalLength"] = theta
            try:
                with quiet():
                    tg.save(fn, fmt, blanks, **args)
            except p.errors.PraatioException as e:
                if outside:
                    note_accept(f"{type(e).__name__}(entry outside the requested span)")
                    if os.path.exists(fn):
                        raise Violation("rejected-save-wrote-file", f"{what}: raised {type(e).__name__} but left a file")
                    cl.add("override_rejected")
                    if min(all_times) >= math.nextafter(lo, -math.inf) and max(all_times) <= math.nextafter(hi, math.inf):
                        cl.add("override_rejected_by_one_ulp")
                    continue
                raise Violation(f"failed-on-valid-input:{type(e).__name__}", f"{what}: {type(e).__name__}: {e}")
            if outside:
                raise Violation("outside-entry-written" + (":blanks" if blanks else ":noblanks"),
                                f"{what}: an entry lies outside the requested span [{lo},{hi}] (entries span "
                                f"[{min(all_times)},{max(all_times)}]) but the file was written")
            with open(fn, "rb") as fd:
                text = fd.read().decode("utf-8")
            try:
                got = tgspec.read_any(text, fmt)
            except (tgspec.SpecError, ValueError) as e:
                raise Violation(f"malformed:{fmt}", f"{what}: {e}; text={text[:300]!r}")
            if not (iomodel.num_rel(lo, got["xmin"]) and iomodel.num_rel(hi, got["xmax"])):
                raise Violation("file-span", f"{what}: file span [{got['xmin']},{got['xmax']}] != requested [{lo},{hi}]")
            if kw:
                cl.add("override_ok")
            g_it = got["tiers"][0]
            # point tier and (without blank filling) interval tier: verbatim
            for gt, st_ in zip(got["tiers"], spec["tiers"]):
                if st_["type"] == "point" or not blanks:
                    if not _same_entries(gt["entries"], st_["entries"]):
                        raise Violation("not-verbatim", f"{what}: tier {st_['name']!r} written as {gt['entries']}, entries are {st_['entries']}")
            if blanks:
                ents = g_it["entries"]
                if eff is None:
                    want = [[a, b, l or ""] for a, b, l in P_]
                    if not _same_entries(ents, want):
                        raise Violation("theta-none-not-exact", f"{what}: written {ents}, expected exactly {want}")
                    if any(not e[0] < e[1] for e in ents):
                        raise Violation("non-positive-interval", f"{what}: {ents}")
                else:
                    check_absorption(ents, P_, eff, what)
                for extra in got["tiers"][2:]:
                    # a second interval tier holding the same entries is written the same way as the first
                    if not _same_entries(extra["entries"], ents):
                        raise Violation("later-tier-treated-differently", f"{what}: tier {extra['name']!r} written as {extra['entries']}, "
                                        f"the first tier with the same entries as {ents}")
                    cl.add("two_interval_tiers")
    nt = bool(cl & {"sliver_first", "sliver_middle", "sliver_last", "sliver_chain", "override_ok", "override_rejected"})
    return {"classes": sorted(cl), "nontrivial": nt}


@st.composite
def cases(draw):
    theta = draw(st.sampled_from([None, "default", "default", 0.001, 0.06, 0.0625, 0.25]))
    unit = 1e-8 if theta in (None, "default") else theta
    mult = st.sampled_from([0.01, 0.5, 0.9, 1.1, 2.0, 5.0, 1e3, 1e3, 3e6 if unit < 1e-3 else 7.0, 5e7 if unit < 1e-3 else 20.0]
                           + ([1.0, 1.0, 0.5, 2.0] if theta in (0.0625, 0.25) else []))
    n = draw(st.integers(1, 7))
    kinds = draw(st.lists(st.tuples(st.sampled_from(["lab", "lab", "lab", "blank", "gap"]), mult), min_size=n, max_size=n))
    off = draw(st.sampled_from([0.0, 0.0, 0.5, 1.0, 3.7]))
    t = off
    entries = []
    for i, (k, m) in enumerate(kinds):
        e = t + m * unit
        if not e > t:
            continue
        if k == "lab":
            entries.append([t, e, "abcdefg"[i]])
        elif k == "blank":
            entries.append([t, e, ""])
        t = e
    end = t
    span_lo = draw(st.sampled_from([0.0, off]))
    span_hi = end + draw(st.sampled_from([0.0, 0.0, 0.5 * unit, 50 * unit, 1.0]))
    if not span_hi > span_lo:
        span_hi = span_lo + 1.0
    it = {"type": "interval", "name": "iv", "entries": entries, "minT": span_lo, "maxT": span_hi, "style": "dec"}
    pts = [[x, "p"] for x in sorted({span_lo, (span_lo + span_hi) / 2, span_hi}) if draw(st.booleans())]
    pt = {"type": "point", "name": "pt", "entries": pts, "minT": span_lo, "maxT": span_hi, "style": "dec"}
    spec = {"tiers": [it, pt] + ([dict(it, name="iv2")] if draw(st.booleans()) else []), "minT": span_lo, "maxT": span_hi, "style": "dec"}
    case = {"tg": spec, "theta": theta, "min_override": None, "max_override": None}
    r = draw(st.integers(0, 9))
    times = [x for tr in spec["tiers"] for e in tr["entries"] for x in e[:-1]]
    if r == 8 and times and max(times) > 0:
        case["max_override"] = math.nextafter(max(times), -math.inf)  # one unit in the last place inside the data: still cuts into it
    elif r == 9 and times:
        case["min_override"] = math.nextafter(min(times), math.inf)
    elif r == 7:
        case["late_entry"] = True
        case["max_override"] = span_hi + 0.75
    elif r == 0:
        case["max_override"] = span_hi + 1.0
    elif r == 1:
        case["max_override"] = span_hi
    elif r == 2 and span_lo > 0:
        case["min_override"] = draw(st.sampled_from([0.0, span_lo / 2]))
    elif r == 3:
        case["max_override"] = (span_lo + span_hi) / 2  # cuts into the data (if any lies beyond)
    elif r == 4:
        case["min_override"] = (span_lo + span_hi) / 2
    return case


CHECKS = [
    Check("slivers", run_case, strategy=lambda tier: cases(), quick_n=3000, thorough_n=40000,
          doc="each case is written in 4 formats x 2 blank-filling settings and decoded independently"),
]


def selftest():
    tgspec.selftest()


KNOWN = {}
