"""C16 - in-memory audio edits are sample-exact and sample-aligned."""
from __future__ import annotations

import os
import struct
import wave
from fractions import Fraction

from hypothesis import strategies as st

from vlib.pio import P, quiet, tmpdir
from vlib.run import Check, Violation, note_accept

PROPERTY = "C16"
RULE = (
    "histories: a mono Wav of width 1/2/4 bytes, rate in {8,16,100,8000,11025,16000,22050,44100,48000}, <=400 samples (incl. the extremes of the "
    "value range) followed by <=6 operations from {insert, deleteSegment, replaceSegment, concatenate, getSubwav, getFrames/"
    "getSamples, save->Wav.open, save->QueryWav queries} at times (k+f)/rate with f in {0,+-0.1,+-0.25,+-0.4,+-0.45} and at "
    "arbitrary times in [0,duration]. Oracle: a list-of-samples model whose index is the integer nearest to the exact rational "
    "t*rate; after every step len(frames) is a multiple of the width, the decoded frames equal the model and duration = "
    "n/rate; bytes<->samples identity; insert-then-delete restores; files are also read back with the stdlib wave module. "
    "Non-trivial: an edit or read at an off-grid time with width>1."
)
ASSUMPTIONS = [
    "times whose t*rate is within 1e-9 of a .5 tie are skipped (round() is half-even; the float product t*rate is off by at most ~1e-13 here)",
    "QueryWav at off-grid times: a contiguous run starting at the nearest index whose length is within 1 of the model's "
    "(its length rule round(rate*(t1-t0)) is not pinned by the statement); on-grid: exact",
    "deleteSegment/getFrames are called with start<=end",
]
REQUIRED_CLASSES = ["history:edits_back_to_back", "history:offgrid_edit_wide", "history:insert", "history:delete", "history:replace", "history:reopen",
                    "history:query_offgrid", "history:query_ongrid", "history:get_replace_get"]

FMT = {1: "b", 2: "h", 4: "i"}


def nearest(t, rate):
    """(index, is_tie_zone)"""
    x = Fraction(t) * rate
    fl = x.numerator // x.denominator
    frac = x - fl
    tie = abs(frac - Fraction(1, 2)) < Fraction(1, 10**9)
    return (fl + 1 if frac > Fraction(1, 2) else fl), tie


def to_bytes(samples, width):
    return struct.pack("<" + FMT[width] * len(samples), *samples)


def from_bytes(b, width):
    if len(b) % width != 0:
        raise Violation("split-sample", f"{len(b)} bytes of audio are not a whole number of {width}-byte samples")
    return list(struct.unpack("<" + FMT[width] * (len(b) // width), b))


def mk_time(k, f, rate):
    return max(0.0, (k + f) / rate)


def run_history(case):
    p = P()
    from praatio import audio

    width, rate = case["width"], case["rate"]
    model = list(case["samples"])
    params = [1, width, rate, len(model), "NONE", "not compressed"]
    wav = audio.Wav(to_bytes(model, width), params)
    cl = set()

    if audio.convertToBytes(audio.convertFromBytes(wav.frames, width), width) != wav.frames:
        raise Violation("bytes-samples-identity", "convertToBytes(convertFromBytes(b)) != b")
    if list(audio.convertFromBytes(audio.convertToBytes(tuple(model), width), width)) != model:
        raise Violation("bytes-samples-identity", "convertFromBytes(convertToBytes(s)) != s")

    def t_of(spec):
        """spec: [k_selector, f] -> time inside [0, duration]"""
        n = len(model)
        k = spec[0] % (n + 1)
        f = spec[1]
        t = (k + f) / rate
        dur = n / rate
        return min(max(t, 0.0), dur)

    def offgrid(t):
        x = Fraction(t) * rate
        return x.denominator != 1

    def check_state(what):
        if len(wav.frames) % width != 0:
            raise Violation("split-sample", f"{what}: len(frames)={len(wav.frames)} is not a multiple of the sample width {width}")
        got = from_bytes(wav.frames, width)
        if got != model:
            i = next((i for i, (a, b) in enumerate(zip(got, model)) if a != b), min(len(got), len(model)))
            raise Violation("samples-differ", f"{what}: {len(got)} samples vs model {len(model)}; first difference at {i}: "
                            f"{got[max(0, i-2):i+3]} vs {model[max(0, i-2):i+3]}")
        if wav.duration != len(model) / rate:
            raise Violation("duration", f"{what}: duration {wav.duration} != {len(model)}/{rate}")

    check_state("initial")
    watched = []
    for k, op in enumerate(case["ops"]):
        kind = op["op"]
        what = f"step {k} {op}"
        if kind in ("insert", "concatenate"):
            new = op["samples"]
            fr = to_bytes(new, width)
            if kind == "concatenate":
                wav.concatenate(fr)
                model.extend(new)
                cl.add("concatenate")
                if op.get("nocheck"):
                    cl.add("edits_back_to_back")
                    continue
            else:
                t = t_of(op["t"])
                i, tie = nearest(t, rate)
                if tie:
                    cl.add("skipped_tie")
                    continue
                try:
                    wav.insert(t, fr)
                except struct.error as e:
                    raise Violation("split-sample", f"{what}: {e}")
                model[i:i] = new
                cl.add("insert")
                if offgrid(t) and width > 1:
                    cl.add("offgrid_edit_wide")
                what += f" (t={t!r} -> index {i})"
                if op.get("nocheck"):
                    cl.add("edits_back_to_back")
                    continue  # nothing is read between this edit and the next one
                check_state(what)
                # insert-then-delete restores
                if new and not offgrid(t):
                    t2 = t + len(new) / rate
                    j, tie2 = nearest(t2, rate)
                    if not tie2 and j == i + len(new):
                        w2 = wav.new()
                        w2.deleteSegment(t, t2)
                        orig = model[:i] + model[i + len(new):]
                        if from_bytes(w2.frames, width) != orig:
                            raise Violation("insert-delete-not-identity", f"{what}: deleting the inserted stretch does not restore the original")
                continue
        elif kind in ("delete", "replace", "subwav", "get"):
            t0, t1 = sorted([t_of(op["t0"]), t_of(op["t1"])])
            i, tie0 = nearest(t0, rate)
            j, tie1 = nearest(t1, rate)
            if tie0 or tie1:
                cl.add("skipped_tie")
                continue
            what += f" (t0={t0!r}->{i}, t1={t1!r}->{j})"
            wide_off = (offgrid(t0) or offgrid(t1)) and width > 1
            if kind == "delete":
                wav.deleteSegment(t0, t1)
                del model[i:j]
                cl.add("delete")
                if wide_off:
                    cl.add("offgrid_edit_wide")
                if op.get("nocheck"):
                    cl.add("edits_back_to_back")
                    continue
            elif kind == "replace":
                new = op["samples"]
                wav.replaceSegment(t0, t1, to_bytes(new, width))
                # replaceSegment = deleteSegment(t0,t1) then insert(t0, frames)
                del model[i:j]
                model[i:i] = new
                cl.add("replace")
                if wide_off:
                    cl.add("offgrid_edit_wide")
            elif kind == "subwav":
                sub = wav.getSubwav(t0, t1)
                if len(sub.frames) % width != 0:
                    raise Violation("split-sample", f"{what}: subwav of {len(sub.frames)} bytes")
                if from_bytes(sub.frames, width) != model[i:j]:
                    raise Violation("subwav-differs", f"{what}: {from_bytes(sub.frames, width)[:6]}.. != {model[i:j][:6]}..")
                if (sub.sampleWidth, sub.frameRate, sub.nchannels) != (width, rate, 1):
                    raise Violation("params", f"{what}: subwav parameters changed")
                if op.get("adopt"):
                    watched.append((wav, list(model)))  # the source stays what it was while the sub-wav is edited further
                    wav = sub
                    model = model[i:j]
                else:
                    sub.concatenate(to_bytes([1, -1], width))  # editing the copy; the source is compared below
                    if j - i == len(model):
                        cl.add("subwav_of_everything_then_edited")
                cl.add("subwav")
                if wide_off:
                    cl.add("offgrid_edit_wide")
            else:
                fr = wav.getFrames(t0, t1)
                if len(fr) % width != 0:
                    raise Violation("split-sample", f"{what}: getFrames returned {len(fr)} bytes")
                try:
                    got = list(wav.getSamples(t0, t1))
                except struct.error as e:
                    raise Violation("split-sample", f"{what}: getSamples: {e}")
                if got != model[i:j] or from_bytes(fr, width) != model[i:j]:
                    raise Violation("samples-differ", f"{what}: getSamples {got[:6]}.. != model {model[i:j][:6]}..")
                cl.add("get")
                if wide_off:
                    cl.add("offgrid_edit_wide")
        elif kind == "get_replace_get":
            # read, replace a stretch by an equally long one, read again: the second read sees the new samples
            n = len(model)
            i, j = sorted([op["t0"][0] % (n + 1), op["t1"][0] % (n + 1)])
            list(wav.getSamples(0, n / rate))
            new = [op["fill"]] * (j - i)
            wav.replaceSegment(i / rate, j / rate, to_bytes(new, width))
            model[i:j] = new
            got = list(wav.getSamples(0, n / rate))
            if got != model:
                raise Violation("samples-differ", f"{what}: getSamples after an equally long replaceSegment returns the old samples")
            cl.add("get_replace_get")
        elif kind == "reopen":
            fn = os.path.join(tmpdir(), "c16.wav")
            wav.save(fn)
            with wave.open(fn, "r") as wf:
                if (wf.getnchannels(), wf.getsampwidth(), wf.getframerate(), wf.getnframes()) != (1, width, rate, len(model)):
                    raise Violation("file-params", f"{what}: file params {wf.getparams()} for {len(model)} samples")
                if from_bytes(wf.readframes(wf.getnframes()), width) != model:
                    raise Violation("file-samples", f"{what}: samples in the saved file differ")
            w2 = audio.Wav.open(fn)
            if from_bytes(w2.frames, width) != model or (w2.sampleWidth, w2.frameRate, w2.nchannels) != (width, rate, 1):
                raise Violation("reopen-differs", f"{what}: Wav.open returns other samples/parameters")
            q = audio.QueryWav(fn)
            if q.duration != len(model) / rate or (q.sampleWidth, q.frameRate) != (width, rate):
                raise Violation("query-params", f"{what}: QueryWav duration {q.duration}")
            for tq in op.get("queries", []):
                t0, t1 = sorted([t_of(tq[0]), t_of(tq[1])])
                i, tie0 = nearest(t0, rate)
                j, tie1 = nearest(t1, rate)
                x, tie2 = nearest(t1 - t0, rate)
                if tie0 or tie1 or tie2:
                    continue
                got = list(q.getSamples(t0, t1))
                if not offgrid(t0) and not offgrid(t1):
                    if got != model[i:j]:
                        raise Violation("query-differs", f"{what}: QueryWav.getSamples({t0!r},{t1!r}) = {got[:6]}.. != {model[i:j][:6]}..")
                    cl.add("query_ongrid")
                else:
                    if abs(len(got) - (j - i)) > 1 or got != model[i:i + len(got)]:
                        raise Violation("query-differs", f"{what}: QueryWav.getSamples({t0!r},{t1!r}) returned {len(got)} samples "
                                        f"{got[:6]}.., model run from {i}: {model[i:j][:6]}.. ({j - i})")
                    cl.add("query_offgrid")
            if from_bytes(q.getFrames(), width) != model or from_bytes(q.getFrames(), width) != model:
                raise Violation("query-differs", f"{what}: QueryWav.getFrames() without arguments does not return the whole recording after earlier reads")
            q.audiofile.close()
            wav = w2
            cl.add("reopen")
        check_state(what)
        for old, samples0 in watched:
            if from_bytes(old.frames, width) != samples0:
                raise Violation("source-changed-through-subwav", f"{what}: a Wav that getSubwav was taken from changed when the sub-wav was edited")
    check_state("after the last step")
    # whatever the history was: saving and opening gives the same samples back
    fn = os.path.join(tmpdir(), "c16_final.wav")
    wav.save(fn)
    w3 = audio.Wav.open(fn)
    # the opened Wav holds the recording as it was when it was opened, whatever happens to the file afterwards
    write_other = [(-x if x else 1) for x in model[: max(1, len(model) // 2)]] or [1]
    with wave.open(fn, "w") as wf:
        wf.setparams((1, width, rate, 0, "NONE", "not compressed"))
        wf.writeframes(to_bytes([max(-(2 ** (8 * width - 1)), min(2 ** (8 * width - 1) - 1, v)) for v in write_other], width))
    if from_bytes(w3.frames, width) != model or w3.duration != len(model) / rate:
        raise Violation("reopen-differs", f"final save -> Wav.open: {len(w3.frames) // width} samples (duration {w3.duration}) for {len(model)} at {rate} Hz")
    return {"classes": sorted(cl), "nontrivial": "offgrid_edit_wide" in cl}


def sample_values(width):
    lo, hi = -(2 ** (8 * width - 1)), 2 ** (8 * width - 1) - 1
    return st.one_of(st.integers(lo, hi), st.sampled_from([lo, hi, 0, 1, -1]), st.integers(-100, 100))


FRACS = st.sampled_from([0.0, 0.0, 0.0, 0.1, -0.1, 0.25, -0.25, 0.4, -0.4, 0.45, -0.45, 0.4999998, -0.4999998, 0.49999, -0.49999])


def time_spec():
    return st.one_of(st.tuples(st.integers(0, 400), FRACS).map(list),
                     st.tuples(st.integers(0, 400), st.floats(-0.49, 0.49)).map(list))


@st.composite
def histories(draw):
    width = draw(st.sampled_from([1, 2, 2, 4]))
    rate = draw(st.sampled_from([8, 16, 100, 8000, 16000, 44100, 22050, 48000, 11025]))
    n = draw(st.one_of(st.integers(0, 24), st.integers(0, 24), st.integers(0, 60), st.integers(0, 400)))
    sv = sample_values(width)
    samples = draw(st.lists(sv, min_size=n, max_size=n))
    ops = []
    for _ in range(draw(st.integers(1, 6))):
        kind = draw(st.sampled_from(["insert", "delete", "replace", "concatenate", "subwav", "get", "get", "reopen", "get_replace_get", "concat_insert"]))
        if kind == "concat_insert":
            # append, then insert inside the stretch that was just appended, with no read in between
            app = draw(st.lists(sv, min_size=3, max_size=12))
            ops.append({"op": "concatenate", "samples": app, "nocheck": True})
            ops.append({"op": "insert", "samples": draw(st.lists(sv, min_size=1, max_size=4)), "t": [-1 - draw(st.integers(1, len(app) - 1)), 0.0],
                        "nocheck": draw(st.booleans())})
            continue
        op = {"op": kind}
        if kind in ("insert", "concatenate", "replace"):
            op["samples"] = draw(st.lists(sv, min_size=0, max_size=12))
        if kind == "insert":
            op["t"] = draw(time_spec())
            if ops and ops[-1]["op"] == "concatenate" and ops[-1].get("nocheck") and draw(st.booleans()):
                op["t"] = [-1 - draw(st.integers(0, 5)), 0.0]  # inside the stretch that was just appended
        if kind in ("insert", "concatenate", "delete"):
            op["nocheck"] = draw(st.integers(0, 2)) == 0  # the next operation follows without any read in between
        if kind == "get_replace_get":
            op["t0"], op["t1"] = [draw(st.integers(0, 400)), 0.0], [draw(st.integers(0, 400)), 0.0]
            op["fill"] = draw(sv)
        if kind in ("delete", "replace", "subwav", "get"):
            op["t0"], op["t1"] = draw(time_spec()), draw(time_spec())
        if kind == "subwav" and draw(st.integers(0, 2)) == 0:
            op["t0"], op["t1"] = [0, 0.0], [-1, 0.0]  # the whole recording (selector -1 = last position)
        if kind == "subwav":
            op["adopt"] = draw(st.booleans())
        if kind == "reopen":
            op["queries"] = draw(st.lists(st.tuples(time_spec(), time_spec()).map(list), max_size=3))
        ops.append(op)
    return {"width": width, "rate": rate, "samples": samples, "ops": ops}


CHECKS = [
    Check("history", run_history, strategy=lambda tier: histories(), quick_n=1200, thorough_n=25000),
]
KNOWN = {}
