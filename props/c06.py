"""C06 - crop keeps exactly the annotation inside the window, per mode."""
from __future__ import annotations

import itertools
from fractions import Fraction

from hypothesis import strategies as st

from vlib import gen
from vlib.pio import P, mk_tier, mk_tg, snap_tier, quiet
from vlib.run import Check, Violation, note_accept

PROPERTY = "C06"
RULE = (
    "enum: every interval tier of <=3 (thorough: <=4) non-overlapping intervals with integer "
    "boundaries on 0..5 (0..8) and every point tier on that grid x every window (a,b) from "
    "{-1,-0.5,0,...,G+1}^2 (a<b, a==b and some a>b) x 3 modes x rebase; gen: random grid/decimal "
    "tiers and textgrids with windows drawn from boundaries, midpoints, arbitrary and out-of-span "
    "times. Oracle: reference crop computed on exact rationals from the statement. Non-trivial: "
    "a window edge equals an entry boundary, or lies strictly inside an interval, or the result is "
    "empty, or the window is degenerate (a>=b); distinct = distinct case dict."
)
ASSUMPTIONS = [
    "rebased crops that keep a piece no wider than 4 ulp of its rebased position are skipped (not representable after the shift)",
    "reference model in props/c06.py is the reading of the statement",
    "timestamps compared bit-for-bit without rebasing; after rebasing within 4 ulp of the exact rational",
]
REQUIRED_CLASSES = [
    "interval_grid:edge_on_boundary",
    "interval_grid:edge_inside_interval",
    "interval_grid:empty_result",
    "interval_grid:degenerate_window",
    "interval_random:empty_result", "interval_random:edge_almost_on_boundary", "interval_random:after_in_place_edit", "interval_random:coinciding_points",
    "textgrid_random:empty_result_some_tier",
    "textgrid_random:tiers_with_own_span",
]

MODES = ["strict", "lax", "truncated"]


# ------------------------------------------------------------ reference model


def model_interval(entries, a, b, mode, rebase, N=Fraction):
    """-> (entries [(s,e,l)] as exact numbers, minT, maxT) per the statement.
    N=float is used only on the dyadic grid, where float arithmetic is exact."""
    a_, b_ = N(a), N(b)
    kept = []
    for s, e, l in entries:
        s_, e_ = N(s), N(e)
        if mode == "strict":
            if a_ <= s_ and e_ <= b_:
                kept.append((s_, e_, l))
        else:
            if e_ > a_ and s_ < b_:  # positive-length overlap
                if mode == "lax":
                    kept.append((s_, e_, l))
                else:
                    kept.append((max(s_, a_), min(e_, b_), l))
    if rebase:
        off = a_
        if kept and kept[0][0] < a_:
            off = kept[0][0]
        kept = [(s - off, e - off, l) for s, e, l in kept]
        lo, hi = N(0), b_ - a_
    else:
        lo, hi = a_, b_
    if kept:  # widened just enough to contain overhanging intervals
        lo = min(lo, kept[0][0])
        hi = max(hi, kept[-1][1])
    return kept, lo, hi


def model_point(entries, a, b, rebase, N=Fraction):
    a_, b_ = N(a), N(b)
    kept = [(N(t), l) for t, l in entries if a_ <= N(t) <= b_]
    if rebase:
        kept = [(t - a_, l) for t, l in kept]
        return kept, N(0), b_ - a_
    return kept, a_, b_


def _cmp_num(got, exact, exact_required, ops, what):
    if exact_required:
        if got != exact:
            raise Violation("timestamp-changed", f"{what}: got {got!r}, expected {float(exact)!r}")
    else:
        if not gen.close(got, exact, *ops):
            raise Violation("timestamp-off", f"{what}: got {got!r}, expected {float(exact)!r}")


def compare_tier(res, kept, lo, hi, exact, ops, ttype):
    snap = snap_tier(res)
    if snap["type"] != ttype:
        raise Violation("tier-type", f"{snap['type']} != {ttype}")
    if len(snap["entries"]) != len(kept):
        raise Violation(
            "entry-set",
            f"got {snap['entries']}, expected {[[float(x) if not isinstance(x, str) else x for x in k] for k in kept]}",
        )
    for g, k in zip(snap["entries"], kept):
        if g[-1] != k[-1]:
            raise Violation("label", f"got {g}, expected label {k[-1]!r}")
        for i in range(len(k) - 1):
            _cmp_num(g[i], k[i], exact, ops, f"entry {g}")
    _cmp_num(snap["minT"], lo, exact, ops, "minTimestamp")
    _cmp_num(snap["maxT"], hi, exact, ops, "maxTimestamp")
    with quiet():
        if res.validate("silence") is not True:
            raise Violation("invalid-result", f"validate() is False for {snap}")


def classify(entries, a, b, is_interval):
    cl = []
    if a >= b:
        return ["degenerate_window"]
    for en in entries:
        for t in en[:-1]:
            for w in (a, b):
                if t != w and abs(t - w) <= 1e-9 * max(abs(t), abs(w)):
                    cl.append("edge_almost_on_boundary")
    bounds = set()
    inside = False
    for en in entries:
        ts = en[:-1]
        bounds.update(ts)
        if is_interval and (ts[0] < a < ts[1] or ts[0] < b < ts[1]):
            inside = True
    if a in bounds or b in bounds:
        cl.append("edge_on_boundary")
    if inside:
        cl.append("edge_inside_interval")
    return cl


def _unrepresentable(spec, a, b, mode, rebase):
    """A kept piece so narrow (a window edge a few ulps inside an interval) that its two ends round to the same
    double once rebasing moves it to a larger magnitude: no implementation can return it."""
    import math

    if not rebase or a >= b or spec["type"] != "interval" or spec.get("style") == "grid":
        return False
    kept, lo, hi = model_interval(spec["entries"], a, b, mode, True)
    return any((e - s_) <= 4 * math.ulp(max(abs(float(e)), abs(float(s_)), 1e-300)) for s_, e, _ in kept)


def run_tier_case(case):
    p = P()
    spec = case["tier"]
    a, b, mode, rebase = case["a"], case["b"], case["mode"], case["rebase"]
    tier = mk_tier(spec)
    from vlib import models as _m
    spec = _m.apply_pre(tier, spec, case.get("pre"))
    before = snap_tier(tier)
    is_int = spec["type"] == "interval"
    classes = classify(spec["entries"], a, b, is_int)
    if case.get("pre"):
        classes.append("after_in_place_edit")
    if not is_int and len({e[0] for e in spec["entries"]}) < len(spec["entries"]):
        classes.append("coinciding_points")
    if _unrepresentable(spec, a, b, mode, rebase):
        return {"classes": ["skipped_unrepresentable_piece"], "nontrivial": False}
    try:
        with quiet():
            res = tier.crop(a, b, mode, rebase)
    except p.errors.ArgumentError:
        if a >= b:
            note_accept("ArgumentError(a>=b)")
            return {"classes": classes, "nontrivial": True}
        raise Violation("rejected-valid-window", f"ArgumentError for a={a} < b={b}")
    if a >= b:
        raise Violation("degenerate-window-accepted", f"crop({a},{b}) returned instead of raising ArgumentError")
    if snap_tier(tier) != before:
        raise Violation("receiver-mutated", "crop changed its receiver")
    N = float if spec.get("style") == "grid" else Fraction
    if is_int:
        kept, lo, hi = model_interval(spec["entries"], a, b, mode, rebase, N)
    else:
        kept, lo, hi = model_point(spec["entries"], a, b, rebase, N)
    exact = (not rebase) or spec.get("style") == "grid"
    compare_tier(res, kept, lo, hi, exact, [a, b, spec["maxT"]], spec["type"])
    if not kept:
        classes.append("empty_result")
    return {"classes": classes, "nontrivial": bool(classes)}


def run_tg_case(case):
    p = P()
    spec = case["tg"]
    a, b, mode, rebase = case["a"], case["b"], case["mode"], case["rebase"]
    tg = mk_tg(spec)
    classes = []
    if any(_unrepresentable(t, a, b, mode, rebase) for t in spec["tiers"]):
        return {"classes": ["skipped_unrepresentable_piece"], "nontrivial": False}
    try:
        with quiet():
            res = tg.crop(a, b, mode, rebase)
    except p.errors.ArgumentError:
        if a >= b:
            note_accept("ArgumentError(a>=b)")
            return {"classes": ["degenerate_window"], "nontrivial": True}
        raise Violation("rejected-valid-window", f"ArgumentError for a={a} < b={b}")
    if a >= b:
        raise Violation("degenerate-window-accepted", "Textgrid.crop accepted a>=b")
    if list(res.tierNames) != [t["name"] for t in spec["tiers"]]:
        raise Violation("tier-names", f"{res.tierNames}")
    exact = (not rebase) or spec.get("style") == "grid"
    lo_all, hi_all = (Fraction(0), Fraction(b) - Fraction(a)) if rebase else (Fraction(a), Fraction(b))
    for tspec, rt in zip(spec["tiers"], res.tiers):
        if tspec["type"] == "interval":
            kept, lo, hi = model_interval(tspec["entries"], a, b, mode, rebase)
        else:
            kept, lo, hi = model_point(tspec["entries"], a, b, rebase)
        compare_tier(rt, kept, lo, hi, exact, [a, b, spec["maxT"]], tspec["type"])
        classes += classify(tspec["entries"], a, b, tspec["type"] == "interval")
        if not kept:
            classes.append("empty_result_some_tier")
        lo_all, hi_all = min(lo_all, lo), max(hi_all, hi)
    _cmp_num(res.minTimestamp, lo_all, exact, [a, b], "textgrid minTimestamp")
    _cmp_num(res.maxTimestamp, hi_all, exact, [a, b], "textgrid maxTimestamp")
    if mode != "lax":
        with quiet():
            if res.validate("silence") is not True:
                raise Violation("invalid-result", "Textgrid.crop result does not validate")
    if any((t["minT"], t["maxT"]) != (spec["minT"], spec["maxT"]) for t in spec["tiers"]):
        classes.append("tiers_with_own_span")
    if not spec["tiers"]:
        classes.append("textgrid_without_tiers")
    classes = sorted(set(classes))
    return {"classes": classes, "nontrivial": bool(classes)}


# --------------------------------------------------------------- enumeration


def grid_interval_tiers(G, kmax):
    """All sets of <= kmax non-overlapping intervals with integer endpoints in 0..G."""
    def rec(start, k):
        yield []
        if k == 0:
            return
        for s in range(start, G):
            for e in range(s + 1, G + 1):
                for rest in rec(e, k - 1):
                    yield [[float(s), float(e)]] + rest
    seen = set()
    for t in rec(0, kmax):
        key = tuple(map(tuple, t))
        if key in seen:
            continue
        seen.add(key)
        yield [[s, e, "abcd"[i]] for i, (s, e) in enumerate(t)]


def windows(G, tier):
    vals = [x / 2 for x in range(-2, 2 * (G + 1) + 1)]
    for a in vals:
        for b in vals:
            if a < b or a == b or (a > b and (a - b) in (0.5, 3.0)):
                yield a, b


def enum_interval(tier, shard, nshards):
    G, k = (5, 3) if tier == "quick" else (8, 4)
    i = 0
    for ents in grid_interval_tiers(G, k):
        i += 1
        if i % nshards != shard:
            continue
        spec = {"type": "interval", "name": "t", "entries": ents, "minT": 0.0, "maxT": float(G), "style": "grid"}
        for a, b in windows(G, tier):
            for mode in MODES:
                for rebase in (False, True):
                    yield {"tier": spec, "a": a, "b": b, "mode": mode, "rebase": rebase}


def enum_point(tier, shard, nshards):
    G = 4 if tier == "quick" else 6
    i = 0
    pts = [x / 2 for x in range(0, 2 * G + 1)]
    for k in range(0, 4):
        for comb in itertools.combinations(pts, k):
            i += 1
            if i % nshards != shard:
                continue
            spec = {"type": "point", "name": "p", "entries": [[t, "abcd"[j]] for j, t in enumerate(comb)],
                    "minT": 0.0, "maxT": float(G), "style": "grid"}
            for a, b in windows(G, tier):
                for rebase in (False, True):
                    yield {"tier": spec, "a": a, "b": b, "mode": "strict", "rebase": rebase}


# ---------------------------------------------------------------- generators


@st.composite
def window_for(draw, entries_list, style, maxT):
    """(a, b): drawn from entry boundaries, midpoints, arbitrary and out-of-span times."""
    bounds = sorted({t for ents in entries_list for en in ents for t in en[:-1]})
    cands = list(bounds)
    cands += [(x + y) / 2 for x, y in zip(bounds, bounds[1:])]
    cands += [0.0, maxT, maxT + 1.0]
    if style != "grid" and bounds:
        # edges a few ulps / 1e-11 relative away from a boundary: unequal, but inside the library's fuzzy equality
        near = [v for b_ in bounds[:4] for v in gen.near_values(b_)]
        cands += near
    pick = st.one_of(st.sampled_from(cands), gen.time_of(style), st.just(-0.5))
    a = draw(pick)
    b = draw(pick)
    r = draw(st.integers(0, 39))
    if r == 17:  # (Hypothesis favours 0 and the end points of integers(): keep the rare cases off them)
        b = a  # degenerate
    elif r == 23:
        a, b = max(a, b), min(a, b)
    elif a > b:
        a, b = b, a
    elif a == b:
        b = a + draw(st.sampled_from([0.5, 0.001, 1.0]))
    return a, b


@st.composite
def tier_cases(draw):
    style = draw(gen.STYLES_ARITH)
    spec = draw(st.one_of(gen.interval_tier(style=style, max_segments=7), gen.point_tier(style=style, dups=True)))
    a, b = draw(window_for([spec["entries"]], style, spec["maxT"]))
    if spec["type"] == "point" and style != "grid" and draw(st.integers(0, 4)) == 0:
        # two same-labelled points closer than the library's fuzzy entry equality, one window edge between (or on) them
        t0 = draw(st.integers(1, 40)) / 10 + 0.05
        d = t0 * 3e-10
        spec["entries"] = sorted([e for e in spec["entries"] if not t0 - 0.01 < e[0] < t0 + 0.01] + [[t0, "a"], [t0 + d, "a"]])
        spec["maxT"] = max(spec["maxT"], t0 + 1.0)
        spec["minT"] = min(spec["minT"], t0)
        if draw(st.booleans()):
            a, b = draw(st.sampled_from([t0 + d / 2, t0 + d])), t0 + draw(st.sampled_from([0.5, 1.0]))
        else:
            a, b = max(spec["minT"], t0 - 0.25) if t0 - 0.25 < t0 else 0.0, draw(st.sampled_from([t0, t0 + d / 2]))
    pre = draw(st.one_of(st.none(), st.none(), st.fixed_dictionaries({"delete": st.one_of(st.none(), st.integers(0, 7))})))
    return {"tier": spec, "a": a, "b": b, "mode": draw(st.sampled_from(MODES)), "rebase": draw(st.booleans()), "pre": pre}


@st.composite
def tg_cases(draw):
    style = draw(gen.STYLES_ARITH)
    spec = draw(gen.textgrid(style=style, max_tiers=4, clean=draw(st.integers(0, 3)) > 0))
    a, b = draw(window_for([t["entries"] for t in spec["tiers"]], style, spec["maxT"]))
    if draw(st.integers(0, 5)) == 0:
        a, b = spec["minT"], spec["maxT"]  # the textgrid's own extent
    if draw(st.integers(0, 11)) == 0:
        spec = dict(spec, tiers=[])  # a textgrid with a span and no tier: the result still spans the window
    mode = draw(st.sampled_from(list(MODES) + ["lax"]))
    if mode == "lax" and draw(st.booleans()):
        # a window starting inside an interval of one tier (that tier's lax result starts before the window)
        ivs = [e for t in spec["tiers"] if t["type"] == "interval" for e in t["entries"] if e[1] - e[0] > 0]
        if ivs and spec["tiers"]:
            e = draw(st.sampled_from(ivs))
            a2 = (e[0] + e[1]) / 2
            if a2 < b:
                a = a2
    return {"tg": spec, "a": a, "b": b, "mode": mode, "rebase": draw(st.booleans())}


CHECKS = [
    Check("interval_grid", run_tier_case, kind="enum", enum=enum_interval, exhaustive=True,
          distinct_by_construction=True,
          doc="all order types of <=3/4 intervals against both window edges, exact arithmetic"),
    Check("point_grid", run_tier_case, kind="enum", enum=enum_point, exhaustive=True,
          distinct_by_construction=True, doc="all point tiers of <=3 points on the half-integer grid"),
    Check("interval_random", run_tier_case, strategy=lambda tier: tier_cases(), quick_n=2000, thorough_n=30000,
          doc="random grid/decimal interval and point tiers"),
    Check("textgrid_random", run_tg_case, strategy=lambda tier: tg_cases(), quick_n=1000, thorough_n=12000,
          doc="Textgrid.crop over multi-tier textgrids"),
]


def _known_none(check, case, v):
    return False


KNOWN = {}
