"""C02 - written TextGrid files are well-formed and all four formats say the same."""
from __future__ import annotations

from hypothesis import strategies as st

from vlib import gen, iomodel, tgspec
from vlib.iomodel import FORMATS
from vlib.pio import P, mk_tg, quiet
from vlib.run import Check, Violation

PROPERTY = "C02"
RULE = (
    "gen: validate-clean textgrids as in C01, with names and labels drawn preferentially from the formats' own keywords "
    "('item [2]:', 'intervals [1]:', '\"IntervalTier\"', 'text = \"x\"', 'ooTextFile short', ...) in every second case, x 4 "
    "formats x includeBlankSpaces x optional minTimestamp/maxTimestamp overrides that contain the data. Oracle: the text is "
    "decoded by the independent spec-based reader in vlib/tgspec.py (token reader for the Praat text forms, strict schema "
    "reader for the JSON forms): it must parse with every declared size matching and no leftover token, and recover names, "
    "types, spans, times (C01's numeric relation) and labels exactly; with blank filling each interval tier must be an "
    "ascending gap-free partition of the file span; short and long decode identically, the two JSON forms identically "
    "(modulo per-tier spans), text vs JSON up to the allowed integer rounding. Non-trivial: a name/label contains a quote or "
    "a format token, or >=1 gap was filled, or an override is present."
)
ASSUMPTIONS = [
    "vlib/tgspec.py is our reading of Praat's 'TextGrid file formats' manual page and of the README JSON schemas (trusted base)",
    "when an override is given only the file span is compared, not the per-tier xmin/xmax header (the statement fixes the file span)",
    "minimumIntervalLength=None (sliver absorption is C04)",
]
REQUIRED_CLASSES = ["wellformed:sliver_with_default_threshold", "wellformed:tiers_with_own_span", "wellformed:format_token", "wellformed:quote", "wellformed:gap_filled", "wellformed:override"]


def run_case(case):
    spec = case["tg"]
    tg = mk_tg(spec)
    kw = {}
    if case.get("min_override") is not None:
        kw["minTimestamp"] = case["min_override"]
    if case.get("max_override") is not None:
        kw["maxTimestamp"] = case["max_override"]
    lo = kw.get("minTimestamp", spec["minT"])
    hi = kw.get("maxTimestamp", spec["maxT"])
    cl = set()
    if kw:
        cl.add("override")
    for t in spec["tiers"]:
        for s in [t["name"]] + [e[-1] for e in t["entries"]]:
            if '"' in s:
                cl.add("quote")
            if any(tok in s for tok in gen.FORMAT_TOKENS):
                cl.add("format_token")
            if "\n" in s:
                cl.add("newline")
    clean = all((t["minT"], t["maxT"]) == (spec["minT"], spec["maxT"]) for t in spec["tiers"])
    if not clean:
        cl.add("tiers_with_own_span")
    decoded = {}
    for blanks in (True, False):
        for fmt in FORMATS:
            what = f"save({fmt}, includeBlankSpaces={blanks}, {kw})"
            text = iomodel.save_text(tg, fmt, blanks, minimumIntervalLength=None, **kw)
            try:
                got = tgspec.read_any(text, fmt)
            except (tgspec.SpecError, ValueError) as e:
                raise Violation(f"malformed:{fmt}", f"{what}: independent reader: {e}; text={text[:400]!r}")
            want = iomodel.spec_to_data(spec)
            want["xmin"], want["xmax"] = lo, hi
            for t in want["tiers"]:
                if blanks and t["class"] == "IntervalTier":
                    n0 = len(t["entries"])
                    t["entries"] = iomodel.fill_blanks(t["entries"], lo, hi)
                    if len(t["entries"]) > n0:
                        cl.add("gap_filled")
            try:
                # tiers with their own span + blank filling: the tier is filled up to the file span (the partition
                # clause below); its xmin/xmax header is not pinned by the statement in that case
                iomodel.compare_data(got, want, what, json_single_span=(fmt == "json"), check_tier_spans=not kw and (clean or not blanks))
            except Violation as v:
                raise Violation(f"{v.clause}:{fmt}", v.message)
            if blanks:
                for t in got["tiers"]:
                    if t["class"] != "IntervalTier":
                        continue
                    ents = t["entries"]
                    if not ents:
                        raise Violation(f"partition:{fmt}", f"{what}: interval tier {t['name']!r} written with no interval")
                    if ents[0][0] != got["xmin"] or ents[-1][1] != got["xmax"]:
                        raise Violation(f"partition:{fmt}", f"{what}: tier {t['name']!r} spans [{ents[0][0]!r},{ents[-1][1]!r}], file [{got['xmin']!r},{got['xmax']!r}]")
                    for x, y in zip(ents, ents[1:]):
                        if x[1] != y[0]:
                            raise Violation(f"partition:{fmt}", f"{what}: gap/overlap between {x} and {y}")
                    if any(not e[0] < e[1] for e in ents):
                        raise Violation(f"partition:{fmt}", f"{what}: non-positive interval in {ents}")
            decoded[(fmt, blanks)] = got
        if blanks:
            # the partition clause also holds with the default sliver threshold (whatever is absorbed)
            decoded_def = {}
            for fmt in FORMATS:
                what = f"save({fmt}, includeBlankSpaces=True, default minimumIntervalLength, {kw})"
                text = iomodel.save_text(tg, fmt, True, **kw)
                try:
                    got = tgspec.read_any(text, fmt)
                except (tgspec.SpecError, ValueError) as e:
                    raise Violation(f"malformed:{fmt}", f"{what}: independent reader: {e}; text={text[:400]!r}")
                decoded_def[fmt] = got
                nothing_short = all(e[1] - e[0] >= 1e-6 for t in decoded[(fmt, True)]["tiers"] if t["class"] == "IntervalTier" for e in t["entries"])
                if nothing_short and got != decoded[(fmt, True)]:
                    # nothing in this textgrid is anywhere near the default threshold: the threshold must not matter
                    raise Violation(f"default-threshold-changes-content:{fmt}", f"{what}: {got} != with the threshold disabled {decoded[(fmt, True)]}")
                for t in got["tiers"]:
                    ents = t["entries"]
                    if t["class"] != "IntervalTier" or not ents:
                        continue
                    if ents[0][0] != got["xmin"] or ents[-1][1] != got["xmax"] or any(x[1] != y[0] for x, y in zip(ents, ents[1:])) \
                            or any(not e[0] < e[1] for e in ents):
                        raise Violation(f"partition-default-threshold:{fmt}", f"{what}: tier {t['name']!r} {ents} is not a partition of [{got['xmin']!r},{got['xmax']!r}]")
            # ... and whatever is absorbed, it is absorbed alike in all four formats
            if decoded_def["short_textgrid"] != decoded_def["long_textgrid"]:
                raise Violation("formats-disagree:short-vs-long:default-threshold", f"{decoded_def['short_textgrid']} != {decoded_def['long_textgrid']}")
            iomodel.compare_data(decoded_def["json"], decoded_def["textgrid_json"], "json vs textgrid_json (default threshold)", json_single_span=True, check_tier_spans=False, exact=True)
            iomodel.compare_data(decoded_def["short_textgrid"], decoded_def["textgrid_json"], "short vs textgrid_json (default threshold)", check_tier_spans=False)
            if gen.min_gap(spec) < 1e-8:
                cl.add("sliver_with_default_threshold")
            if any(t["type"] == "interval" and t["entries"] and t["entries"][0][1] <= 4e-9 for t in spec["tiers"]):
                cl.add("leading_slivers")
        a, b = decoded[("short_textgrid", blanks)], decoded[("long_textgrid", blanks)]
        if a != b:
            raise Violation("formats-disagree:short-vs-long", f"blanks={blanks}: {a} != {b}")
        j, tj = decoded[("json", blanks)], decoded[("textgrid_json", blanks)]
        iomodel.compare_data(j, tj, f"json vs textgrid_json (blanks={blanks})", json_single_span=True, check_tier_spans=False, exact=True)
        iomodel.compare_data(a, tj, f"short vs textgrid_json (blanks={blanks})", check_tier_spans=not kw)
    # save - edit a tier in place (same number of entries) - save again: the second file shows the edit
    import copy
    spec2 = copy.deepcopy(spec)
    edited = False
    for t2, tier in zip(spec2["tiers"], tg.tiers):
        if t2["entries"]:
            k = len(t2["entries"]) // 2
            old = tier.entries[k]
            new_label = "edited" if old[-1] != "edited" else "edited2"
            tier.deleteEntry(old)
            tier.insertEntry(tuple(old[:-1]) + (new_label,), "error", "silence")
            t2["entries"][k][-1] = new_label
            edited = True
            break
    if edited:
        for fmt in FORMATS:
            what = f"second save({fmt}) after an in-place edit of one label"
            text = iomodel.save_text(tg, fmt, False, minimumIntervalLength=None, **kw)
            try:
                got = tgspec.read_any(text, fmt)
            except (tgspec.SpecError, ValueError) as e:
                raise Violation(f"malformed:{fmt}", f"{what}: independent reader: {e}; text={text[:400]!r}")
            want = iomodel.spec_to_data(spec2)
            want["xmin"], want["xmax"] = lo, hi
            try:
                iomodel.compare_data(got, want, what, json_single_span=(fmt == "json"), check_tier_spans=not kw)
            except Violation as v:
                raise Violation(f"stale-after-edit:{v.clause}:{fmt}", v.message)
        cl.add("saved_edited_saved")
    return {"classes": sorted(cl), "nontrivial": bool(cl & {"quote", "format_token", "gap_filled", "override"})}


@st.composite
def cases(draw):
    clean = draw(st.integers(0, 4)) > 0
    spec = draw(gen.io_textgrid(clean=clean, token_rate=2))
    if draw(st.integers(0, 3)) == 0:
        # neighbouring intervals that touch and carry the same label are still separate intervals
        for t in spec["tiers"]:
            if t["type"] == "interval":
                for x, y in zip(t["entries"], t["entries"][1:]):
                    if x[1] == y[0] and draw(st.booleans()):
                        y[2] = x[2]
    if draw(st.integers(0, 5)) == 0:
        # a tier name is text like any other: it may hold a line break (the independent reader decodes it)
        t = spec["tiers"][draw(st.integers(0, len(spec["tiers"]) - 1))]
        new_name = t["name"] + draw(st.sampled_from(["\nx", "\n", " \n y", "\r\nz"])).replace("\r", "") + "q"
        if new_name not in [x["name"] for x in spec["tiers"]]:
            t["name"] = new_name
    case = {"tg": spec, "min_override": None, "max_override": None}
    r = draw(st.integers(0, 5)) if clean else 5
    if clean and draw(st.integers(0, 5)) == 0 and spec["maxT"] < 1e4:
        # a trailing stretch shorter than the default sliver threshold
        hi = spec["maxT"] + 5e-9
        if hi > spec["maxT"]:
            spec["maxT"] = hi
            for t in spec["tiers"]:
                t["maxT"] = hi
    if clean and spec["minT"] == 0 and draw(st.integers(0, 5)) == 0:
        # an interval tier that opens with one or two intervals shorter than the default sliver threshold
        for t in spec["tiers"]:
            if t["type"] == "interval" and (not t["entries"] or t["entries"][0][0] > 1e-6) and spec["maxT"] > 1e-6:
                lead = [[2e-9, 4e-9, "c"]] + ([[4e-9, 7e-9, "d"]] if draw(st.booleans()) else [])
                if draw(st.booleans()):
                    lead = [[0.0, 2e-9, "b"]] + lead
                t["entries"] = lead + t["entries"]
                break
    if r in (0, 1):
        last = max([x for t in spec["tiers"] for e in t["entries"] for x in e[:-1]] + [spec["minT"]])
        opts = [spec["maxT"], spec["maxT"] + 1.0, spec["maxT"] * 2 + 0.5]
        if clean and spec["maxT"] - last > 1e-3 + 1e-12 * spec["maxT"]:  # (far enough apart to survive the number rounding C01 allows)
            opts += [(last + spec["maxT"]) / 2] * 2  # shorter than the textgrid, yet beyond every entry
        case["max_override"] = draw(st.sampled_from(opts))
        if case["max_override"] < spec["maxT"] and not (case["max_override"] > last + 1e-6):
            case["max_override"] = spec["maxT"]
        if not case["max_override"] > spec["minT"]:
            case["max_override"] = None
    if r in (1, 2) and spec["minT"] > 0:
        case["min_override"] = draw(st.sampled_from([0.0, spec["minT"], spec["minT"] / 2]))
    return case


CHECKS = [
    Check("wellformed", run_case, strategy=lambda tier: cases(), quick_n=600, thorough_n=10000,
          doc="every case is written in 4 formats x 2 blank-filling settings and decoded independently"),
]


def selftest():
    tgspec.selftest()


KNOWN = {}
