#!/venv/bin/python
"""tools/class_floor.py seed...  - run every quick check at the given seeds and print, per required class, the smallest
count seen (a required class whose count can reach 0 makes the check exit 2 by chance); also echoes any non-zero exit."""
import json, os, subprocess, sys
HERE = os.path.dirname(os.path.dirname(os.path.abspath(__file__)))
sys.path.insert(0, HERE)
seeds = [int(x) for x in sys.argv[1:]] or [101, 102, 103]
floor = {}
for sd in seeds:
    for n in range(1, 21):
        prop = f"C{n:02d}"
        env = dict(os.environ, VERIF_SEED=str(sd))
        p = subprocess.run(["./check", prop, "quick"], cwd=HERE, env=env, stdout=subprocess.PIPE, stderr=subprocess.STDOUT)
        tail = p.stdout.decode("utf-8", "replace").strip().splitlines()[-1:]
        if p.returncode != 0:
            print("NONZERO", prop, sd, p.returncode, tail, flush=True)
        ev = json.load(open(os.path.join(HERE, "evidence", f"{prop}.json")))
        mod = __import__(f"props.{prop.lower()}", fromlist=["x"])
        for rc in getattr(mod, "REQUIRED_CLASSES", []):
            c = ev["coverage"]["classes"].get(rc, 0)
            floor[(prop, rc)] = min(floor.get((prop, rc), 10**9), c)
    print("seed", sd, "done", flush=True)
for (prop, rc), c in sorted(floor.items(), key=lambda kv: kv[1])[:40]:
    print(f"{c:6d}  {prop}  {rc}")
