#!/venv/bin/python
"""Regenerates /verif/MANIFEST.json from the table below and validates it
against /root/.vp/MANIFEST.schema.json (when jsonschema is importable)."""
import json
import os
import sys

HERE = os.path.dirname(os.path.dirname(os.path.abspath(__file__)))

# property -> (technique, level text, level note, design ref)
CLAIMED = {}


def claim(pid, technique, text, note, ref):
    CLAIMED[pid] = (technique, text, note, ref)


sys.path.insert(0, HERE)
from tools.manifest_table import TABLE, PENDING  # noqa

for row in TABLE:
    claim(*row)

props = [json.loads(l) for l in open(os.path.join(HERE, "properties.jsonl"))]
checks = []
not_applicable = []
for p in props:
    pid = p["id"]
    if pid in CLAIMED and os.path.exists(os.path.join(HERE, "props", pid.lower() + ".py")):
        technique, text, note, ref = CLAIMED[pid]
        checks.append(
            {
                "property_id": pid,
                "quick_cmd": f"./check {pid} quick",
                "thorough_cmd": f"./check {pid} thorough",
                "evidence_file": f"/verif/evidence/{pid}.json",
                "replay_cmd_template": f"./check {pid} --replay {{path}}",
                "engine": "hypothesis-runner",
                "level_claimed": {"category": "exploration", "text": text, "design_ref": ref},
                "level_note": note,
                "technique": technique,
            }
        )
    else:
        not_applicable.append({"property_id": pid, "reason": PENDING.get(pid, "check not built yet; see DESIGN.md section 3")})

manifest = {
    "version": 1,
    "setup_cmd": "./setup.sh",
    "hooks": {
        "guard": "PRAATIO_VERIF",
        "enable": "no source hooks are needed: checks import praatio from /repo's working tree (VERIF_REPO overrides the path) and observe public API only; the runner sets PRAATIO_VERIF=1 for uniformity",
        "baseline_off_cmd": "cd /repo && /venv/bin/python -m pytest -ra -q -p no:cacheprovider --timeout=900 --continue-on-collection-errors",
        "source_commits": [],
        "add_only": True,
    },
    "engines": [
        {
            "name": "hypothesis-runner",
            "path": "/verif/vlib/run.py",
            "serves_properties": [c["property_id"] for c in checks],
            "kind_free_text": "Hypothesis-driven generated-input search plus exhaustive small-space enumeration against reference models; seeds, sharding over 16 processes, bucketing, shrinking, JSON replay, evidence writer",
        }
    ],
    "checks": checks,
    "not_applicable": not_applicable,
    "notes": "Findings ledger: /verif/known_findings.json (known = reported as KNOWN-FINDING, fixed = repaired by a 'fix:' commit in /repo and guarded by /verif/regress reproducers). Seeded breaking changes with their detection status: /verif/seeded/.",
}
with open(os.path.join(HERE, "MANIFEST.json"), "w") as fd:
    json.dump(manifest, fd, indent=1)
    fd.write("\n")

import subprocess

code = ("import json, jsonschema; jsonschema.validate(json.load(open('%s/MANIFEST.json')), "
        "json.load(open('/root/.vp/MANIFEST.schema.json'))); print('MANIFEST.json valid')" % HERE)
r = subprocess.run(["python3-vt", "-c", code], stdout=subprocess.PIPE, stderr=subprocess.STDOUT)
print(r.stdout.decode().strip()[-400:], ";", len(checks), "claimed,", len(not_applicable), "not claimed")
if r.returncode:
    sys.exit(1)
