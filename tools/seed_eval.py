#!/venv/bin/python
"""Run the registered checks against the seeded breaking changes in /verif/seeded/.

For every /verif/seeded/<id>/patch.diff: make a scratch worktree of /repo's HEAD
outside /repo and /verif, apply the patch, run the repository's own test suite
(must still pass), run the demonstration (must fail), run the property's check
with VERIF_REPO pointing at the worktree (quick tier; thorough with --thorough
for the ones the quick tier misses), remove the worktree, and record the outcome
in /verif/seeded/<id>/result.json and /verif/seeded/SUMMARY.md.

usage: tools/seed_eval.py [ids...] [--thorough] [--all-props]
"""
import json
import os
import shutil
import subprocess
import sys
import time

HERE = os.path.dirname(os.path.dirname(os.path.abspath(__file__)))
SEEDED = os.path.join(HERE, "seeded")
PY = "/venv/bin/python"


def sh(cmd, cwd=None, env=None, timeout=3600):
    e = dict(os.environ)
    if env:
        e.update(env)
    import signal
    p = subprocess.Popen(cmd, shell=True, cwd=cwd, env=e, stdout=subprocess.PIPE, stderr=subprocess.STDOUT, start_new_session=True)
    try:
        out, _ = p.communicate(timeout=timeout)
    except subprocess.TimeoutExpired:
        os.killpg(p.pid, signal.SIGKILL)  # the whole process group: a check that hangs on a non-terminating library call
        p.communicate()
        return 124, "timeout"
    return p.returncode, out.decode("utf-8", "replace")


def evaluate(sid, thorough=False, all_props=False):
    d = os.path.join(SEEDED, sid)
    meta = json.load(open(os.path.join(d, "meta.json")))
    prop = meta["property"]
    wt = f"/tmp/seedeval_{sid}_{os.getpid()}"
    sh(f"git -C /repo worktree remove --force {wt}")
    rc, out = sh(f"git -C /repo worktree add -q --detach {wt} HEAD")
    if rc:
        return {"id": sid, "error": "worktree: " + out}
    res = {"id": sid, "property": prop, "summary": meta.get("summary"), "needs": meta.get("needs")}
    if meta.get("superseded"):
        res["superseded"] = meta["superseded"]
    try:
        rc, out = sh(f"git -C {wt} apply --whitespace=nowarn {os.path.join(d, 'patch.diff')}")
        if rc:
            # patches were made against an earlier HEAD; try with 3-way
            rc, out = sh(f"git -C {wt} apply --3way --whitespace=nowarn {os.path.join(d, 'patch.diff')}")
        res["patch_applies"] = rc == 0
        if rc:
            res["error"] = out[-500:]
            return res
        rc, out = sh(f"{PY} -m pytest -q -p no:cacheprovider -x 2>&1 | tail -3", cwd=wt)
        res["repo_tests_pass"] = " passed" in out and "failed" not in out and "error" not in out.lower()
        res["repo_tests_tail"] = out.strip().splitlines()[-1] if out.strip() else ""
        demo = os.path.join(d, "demo.py")
        rc, out = sh(f"{PY} {demo}", cwd=wt, env={"PYTHONPATH": wt}, timeout=600)
        res["demo_fails_with_change"] = rc != 0
        rc0, _ = sh(f"{PY} {demo}", cwd="/repo", env={"PYTHONPATH": "/repo"}, timeout=600)
        res["demo_passes_without_change"] = rc0 == 0
        props = [prop]
        if all_props:
            props = [f"C{n:02d}" for n in range(1, 21)]
        res["checks"] = {}
        seeds = [int(x) for x in os.environ.get("SEED_EVAL_SEEDS", "1").split(",")]
        res["seeds_tried"] = seeds
        res["quick_exit_by_seed"] = {}
        for p in props:
            for tier in (["quick", "thorough"] if thorough else ["quick"]):
                for sd in (seeds if tier == "quick" else seeds[:1]):
                    t0 = time.time()
                    rc, out = sh(f"./check {p} {tier} --no-evidence", cwd=HERE, env={"VERIF_REPO": wt, "VERIF_SEED": str(sd)}, timeout=1500)
                    lines = [l for l in out.splitlines() if l.startswith("  check=")]
                    key = f"{p}:{tier}" if sd == seeds[0] else f"{p}:{tier}:seed{sd}"
                    res["checks"][key] = {"exit": rc, "seed": sd, "wall_s": round(time.time() - t0, 1),
                                          "clauses": [l.strip()[:300] for l in lines[:4]]}
                    if p == prop and tier == "quick":
                        res["quick_exit_by_seed"][str(sd)] = rc
                if any(v["exit"] == 1 for k, v in res["checks"].items() if k.startswith(f"{p}:{tier}")):
                    break
        own = [v for k, v in res["checks"].items() if k.startswith(prop + ":")]
        res["detected"] = any(v["exit"] == 1 for v in own)
        res["detected_tier"] = next((k.split(":")[1] for k, v in res["checks"].items() if k.startswith(prop + ":") and v["exit"] == 1), None)
        q = res["quick_exit_by_seed"]
        res["quick_detection_rate"] = f"{sum(1 for v in q.values() if v == 1)}/{len(q)}"
        return res
    finally:
        sh(f"git -C /repo worktree remove --force {wt}")
        shutil.rmtree(wt, ignore_errors=True)


def main():
    args = [a for a in sys.argv[1:] if not a.startswith("--")]
    thorough = "--thorough" in sys.argv
    all_props = "--all-props" in sys.argv
    ids = args or sorted(x for x in os.listdir(SEEDED) if os.path.isdir(os.path.join(SEEDED, x)))
    from concurrent.futures import ThreadPoolExecutor

    with ThreadPoolExecutor(max_workers=int(os.environ.get("SEED_JOBS", "6"))) as ex:
        results = list(ex.map(lambda s: evaluate(s, thorough, all_props), ids))
    for r in results:
        with open(os.path.join(SEEDED, r["id"], "result.json"), "w") as fd:
            json.dump(r, fd, indent=1)
        print(r["id"], "detected" if r.get("detected") else "MISSED", r.get("detected_tier"), r.get("error", ""),
              r.get("quick_detection_rate"),
              "| tests_pass=%s demo_fails=%s demo_ok_clean=%s" % (r.get("repo_tests_pass"), r.get("demo_fails_with_change"), r.get("demo_passes_without_change")))
    # summary over everything on disk
    rows = []
    for sid in sorted(x for x in os.listdir(SEEDED) if os.path.isdir(os.path.join(SEEDED, x))):
        p = os.path.join(SEEDED, sid, "result.json")
        if os.path.exists(p):
            rows.append(json.load(open(p)))
    with open(os.path.join(SEEDED, "SUMMARY.md"), "w") as fd:
        fd.write("# Seeded breaking changes and which check catches them\n\n")
        fd.write("| id | property | change | survives repo tests | caught by | quick tier, seeds detecting / tried | first violated clause |\n|---|---|---|---|---|---|---|\n")
        for r in rows:
            caught = f"./check {r['property']} {r.get('detected_tier')}" if r.get("detected") else "**missed**"
            if r.get("superseded") and not r.get("detected"):
                caught = "(no longer a violation: " + r["superseded"][:90] + ")"
            cl = ""
            for k, v in r.get("checks", {}).items():
                if v["exit"] == 1 and v["clauses"]:
                    cl = v["clauses"][0].replace("|", "/")[:160]
                    break
            fd.write(f"| {r['id']} | {r.get('property')} | {str(r.get('summary'))[:140].replace('|', '/')} | {r.get('repo_tests_pass')} | {caught} | {r.get('quick_detection_rate', '')} | {cl} |\n")
    print("summary written")


if __name__ == "__main__":
    main()
