"""Claimed properties: (id, technique, level text, level note, DESIGN.md ref)."""
_NOTE = ("Trusted base: CPython 3.12 float/repr/round/struct/wave/json semantics, Hypothesis 6.168, and the "
         "reference model in /verif/props (the reading of the property statement). Exploration never shows absence: "
         "only the generated shapes and the enumerated small spaces are covered.")

TABLE = [
    ("C06", "exhaustive order-type enumeration + Hypothesis generated tiers/windows vs exact-rational reference crop",
     "Every tier of <=3 (thorough <=4) intervals on an integer grid against every window on the half-integer grid is "
     "enumerated (complete over order types for this comparison-only code), plus random dyadic/decimal tiers and "
     "multi-tier textgrids; results compared entry-for-entry with a reference crop written from the statement.",
     _NOTE, "DESIGN.md section 3 C06"),
    ("C07", "exhaustive order-type enumeration + Hypothesis generated decimal tiers/regions vs exact-rational reference eraseRegion",
     "All tiers of <=3 (thorough <=4) intervals / <=3 points on a small grid x all in-span regions x modes x doShrink are "
     "enumerated and compared bit-for-bit with a reference model written from the statement; random dyadic and non-dyadic "
     "decimal tiers and multi-tier textgrids are compared entry-for-entry within 4 ulp and may never fail with an exception.",
     _NOTE, "DESIGN.md section 3 C07"),
    ("C08", "exhaustive order-type enumeration + Hypothesis generated decimal tiers vs exact-rational reference insertSpace; inverse (round-trip) oracle",
     "All small grid tiers x all insertion points x durations x 4 modes are enumerated against a reference insertSpace; random "
     "decimal tiers/textgrids likewise within 4 ulp; the composition insertSpace;eraseRegion(shrink) must restore the "
     "label-at-every-time function and the span.",
     _NOTE, "DESIGN.md section 3 C08"),
]

PENDING = {}
