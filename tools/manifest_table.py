"""Claimed properties: (id, technique, level text, level note, DESIGN.md ref)."""
_NOTE = ("Trusted base: CPython 3.12 float/repr/round/struct/wave/json semantics, Hypothesis 6.168, and the "
         "reference model in /verif/props (the reading of the property statement). Exploration never shows absence: "
         "only the generated shapes and the enumerated small spaces are covered.")

TABLE = [
    ("C06", "exhaustive order-type enumeration + Hypothesis generated tiers/windows vs exact-rational reference crop",
     "Every tier of <=3 (thorough <=4) intervals on an integer grid against every window on the half-integer grid is "
     "enumerated (complete over order types for this comparison-only code), plus random dyadic/decimal tiers and "
     "multi-tier textgrids; results compared entry-for-entry with a reference crop written from the statement.",
     _NOTE, "DESIGN.md section 3 C06"),
    ("C07", "exhaustive order-type enumeration + Hypothesis generated decimal tiers/regions vs exact-rational reference eraseRegion",
     "All tiers of <=3 (thorough <=4) intervals / <=3 points on a small grid x all in-span regions x modes x doShrink are "
     "enumerated and compared bit-for-bit with a reference model written from the statement; random dyadic and non-dyadic "
     "decimal tiers and multi-tier textgrids are compared entry-for-entry within 4 ulp and may never fail with an exception.",
     _NOTE, "DESIGN.md section 3 C07"),
    ("C08", "exhaustive order-type enumeration + Hypothesis generated decimal tiers vs exact-rational reference insertSpace; inverse (round-trip) oracle",
     "All small grid tiers x all insertion points x durations x 4 modes are enumerated against a reference insertSpace; random "
     "decimal tiers/textgrids likewise within 4 ulp; the composition insertSpace;eraseRegion(shrink) must restore the "
     "label-at-every-time function and the span.",
     _NOTE, "DESIGN.md section 3 C08"),
    ("C10", "exhaustive pair enumeration over a small grid + Hypothesis generated pairs vs elementary-segment reference model; algebraic laws on outputs",
     "All ordered pairs of tiers over 4 (thorough: 6) grid cells x 2 labels are run through difference, intersection, union and "
     "mergeLabels and compared bit-for-bit with a model written from the statement, plus the partition/union laws on the "
     "implementation's own outputs; point-tier unions and Textgrid.mergeTiers likewise; random larger decimal pairs.",
     _NOTE, "DESIGN.md section 3 C10"),
    ("C11", "model-based testing of generated insert/delete histories against a list model; exhaustive single-insert order types",
     "Generated histories of insertEntry (3 collision modes, 2 reporting modes, 3 argument forms) and deleteEntry (present/absent) "
     "are compared with a list model after every step (entries, span, validate()); every order type of one inserted interval "
     "against <=3 (thorough <=4) existing intervals is enumerated.",
     _NOTE, "DESIGN.md section 3 C11"),
    ("C09", "Hypothesis generated tiers/textgrids x offsets/pairs vs exact-rational shift-and-clip model; stdout capture; +x/-x round trip",
     "Random dyadic/decimal tiers (incl. empty) x offsets chosen to clip none/some/all entries x 3 reporting modes, and pairs of "
     "tiers/textgrids with equal, overlapping and disjoint name sets, are compared with a model of the statement (entries, "
     "span, reporting behaviour, resulting tier set).",
     _NOTE, "DESIGN.md section 3 C09"),
    ("C12", "exhaustive breadth-first exploration of tier-map operation sequences vs ordered-list model; differential tier-wise check on generated textgrids",
     "Every sequence of addTier/removeTier/renameTier/replaceTier over 4 names up to depth 5 (thorough 6; memoised on the model "
     "state) is replayed and compared with a list model after every step; random histories check that the span only widens; "
     "textgrid-level edits are compared with the per-tier operations and validate().",
     _NOTE, "DESIGN.md section 3 C12"),
    ("C05", "Hypothesis generated operation histories (selector-based op lists) with a well-formedness invariant after every step",
     "Histories of <=12 operations over all 16 tier operations with arbitrary (also out-of-domain) arguments on dyadic and decimal "
     "timestamps; after every step every live tier must be sorted, disjoint, inside its span, trimmed and validate(); only "
     "praatio errors may be raised for in-domain arguments. Tiers obtained by opening files (rendered in the long, short and both "
     "JSON layouts by the independent writer) must satisfy the same invariant.",
     _NOTE, "DESIGN.md section 3 C05"),
    ("C13", "Hypothesis generated histories and failing-argument cases with exact before/after snapshots (receiver, arguments, destination file bytes)",
     "Every tier and textgrid operation is called with generated (also failing) arguments; exact snapshots of receiver and arguments "
     "are compared before/after on the success and the exception path; mutators must be all-or-nothing; a failing save must "
     "leave a pre-existing destination file byte-identical. Caller-owned lists (entry lists, name lists, sample series) and "
     "receivers whose span is still (partly) unset are watched as well.",
     _NOTE, "DESIGN.md section 3 C13"),
    ("C14", "Hypothesis generated tier/reference pairs with a per-timestamp validity predicate (dejitter/align) and an exact-rational reference model (morph)",
     "References are built from the tier's own timestamps displaced by fractions and exact multiples of maxDifference (incl. "
     "equidistant candidates and empty references); every result timestamp must satisfy the moved/unchanged rule, labels and count "
     "kept, errors only when an interval can collapse; morph compared with an exact model incl. gaps, first start and trailing gap.",
     _NOTE, "DESIGN.md section 3 C14"),
    ("C15", "Hypothesis generated queries vs direct re-implementations of the definitions; exhaustive lattice for the overlap helper; perturbation/corruption injection",
     "find/getNonEntries/timestamps/getValuesInIntervals/getValuesAtPoints/intervalOverlapCheck/invertIntervalList are compared "
     "with definitions re-implemented in /verif on generated inputs (ties, samples on boundaries, touching intervals); equality "
     "must be reflexive, symmetric and detect every single-field perturbation; validate() must be False exactly for injected corruptions.",
     _NOTE, "DESIGN.md section 3 C15"),
    ("C01", "Hypothesis generated textgrids through save/open in all 16 format x flag combinations; round-trip and fixed-point oracles",
     "Generated textgrids (rich label/name alphabet incl. format tokens; dyadic, decimal, 17-digit, near-integer, tiny and huge "
     "timestamps) are saved and reopened in every format/flag combination; the result must equal the expectation derived from "
     "the statement with bit-identical timestamps (or the allowed integer rounding) and the re-saved text must be identical.",
     _NOTE + " One known finding (keyword inside a name/label derails the text readers) is excluded by a case-level signature and reported as KNOWN-FINDING.",
     "DESIGN.md section 3 C01"),
    ("C02", "Hypothesis generated textgrids (keyword-heavy names/labels, overrides) decoded by an independent spec-based reader; cross-format differential",
     "Every generated textgrid is written in 4 formats x 2 blank-filling settings (with optional span overrides) and decoded by "
     "a token reader / strict JSON schema reader written from the specification, which must recover the in-memory content "
     "exactly; blank-filled tiers must partition the file span; the four formats must agree.",
     _NOTE + " The independent reader (vlib/tgspec.py) is part of the trusted base and is self-tested at the start of every run.",
     "DESIGN.md section 3 C02"),
    ("C03", "Hypothesis generated data rendered by independent spec-based writers (5 layouts x number styles x encodings x newlines), differential against openTextgrid",
     "Files are produced by writers in /verif (Praat long, ELAN long, short, two JSON schemas; repr/17-digit/exponent numbers, -0; "
     "UTF-8, UTF-8-sig, UTF-16 LE/BE with BOM; LF/CRLF) and opened with every includeEmptyIntervals/duplicateNamesMode setting; "
     "the result must equal the generating data bit-for-bit.",
     _NOTE + " One known finding (keyword inside a name/label) is excluded by a case-level signature and reported as KNOWN-FINDING.",
     "DESIGN.md section 3 C03"),
    ("C04", "Hypothesis generated piece sequences around the sliver threshold, decoded by the independent reader and judged by a validity predicate",
     "Interval tiers are generated as sequences of labelled / blank / gap pieces whose lengths straddle minimumIntervalLength "
     "(slivers first, middle, last, in chains), saved with thresholds None/1e-8/0.001/0.06, span overrides and both blank-filling "
     "settings in all formats; the decoded file must be the exact partition (None) or a grouping of consecutive pieces around "
     "exactly one long piece each; overrides that cut into the data must raise and leave no file.",
     _NOTE, "DESIGN.md section 3 C04"),
    ("C16", "model-based testing: Hypothesis generated edit histories on Wav objects vs a list-of-samples model; file round trip re-read with the stdlib wave module",
     "Histories of <=6 insert/deleteSegment/replaceSegment/concatenate/getSubwav/getSamples/save-open operations at on- and off-grid "
     "times for widths 1/2/4 and six frame rates are compared with a list model (nearest-sample index on exact rationals) after "
     "every step; saved files are re-read with wave, Wav.open and QueryWav.",
     _NOTE, "DESIGN.md section 3 C16"),
    ("C17", "Hypothesis generated recordings x interval lists / textgrids vs a list-of-samples model; outputs re-read with stdlib wave and the independent TextGrid reader",
     "readFramesAtTimes (keep/delete, with/without replacement, on/off grid, error cases), extractSubwav, splitAudioOnTier (name "
     "styles, partial intervals, TextGrid output) and the audio generators are run on generated inputs and their byte/file "
     "outputs are compared with a sample-level model.",
     _NOTE, "DESIGN.md section 3 C17"),
    ("C18", "Hypothesis generated recordings/targets/steps and splice scenarios judged by validity predicates on the returned values",
     "findNearestZeroCrossing is run on six kinds of generated recordings with on/off-grid targets and integral/non-integral "
     "steps: a returned time must be in range, on the sample grid for an on-grid target and a genuine crossing; only the two "
     "documented errors may be raised. tgBoundariesToZeroCrossings and audioSplice are checked for kept labels/counts/order, the "
     "single new interval and audio/text durations agreeing within one sample.",
     _NOTE, "DESIGN.md section 3 C18"),
    ("C19", "Hypothesis generated KlattGrids / point objects rendered by an independent writer; round-trip, fixed-point and independent number-tokenizer oracles; metamorphic check of value modifications",
     "Synthetic KlattGrids (1-5 formants, 0-5 points per sub-tier, integer / 17-digit / tiny / huge / negative values) and the "
     "reference file are opened, saved and reopened: every in-memory number must equal the file's free-standing numbers (independent "
     "tokenizer) bit-for-bit, the reopened object must be identical and the written form a fixed point; modifications must apply f "
     "exactly once to the addressed values (functions of several callable shapes); KlattGrids assembled with the public classes "
     "(point lists possibly shared between tiers, sub-tiers with spans of their own) must round-trip too; point objects must "
     "round-trip in short and long text.",
     _NOTE + " vlib/kgspec.py (writer in Praat's layout) is part of the trusted base.", "DESIGN.md section 3 C19"),
    ("C20", "exhaustive small-series enumeration (median filter) + Hypothesis generated series/listings vs textbook re-implementations",
     "medianFilter is enumerated over all series of length <=6 (thorough 8) over three values x windows 0..8 x padding and on random "
     "series; z-normalisation, rms, getPitchMeasures, detectPitchErrors, loadTimeSeriesData and the row filters are compared with "
     "definitions re-implemented in /verif.",
     _NOTE, "DESIGN.md section 3 C20"),
]

PENDING = {}
