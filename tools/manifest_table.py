"""Claimed properties: (id, technique, level text, level note, DESIGN.md ref)."""
_NOTE = ("Trusted base: CPython 3.12 float/repr/round/struct/wave/json semantics, Hypothesis 6.168, and the "
         "reference model in /verif/props (the reading of the property statement). Exploration never shows absence: "
         "only the generated shapes and the enumerated small spaces are covered.")

TABLE = [
    ("C06", "exhaustive order-type enumeration + Hypothesis generated tiers/windows vs exact-rational reference crop",
     "Every tier of <=3 (thorough <=4) intervals on an integer grid against every window on the half-integer grid is "
     "enumerated (complete over order types for this comparison-only code), plus random dyadic/decimal tiers and "
     "multi-tier textgrids; results compared entry-for-entry with a reference crop written from the statement.",
     _NOTE, "DESIGN.md section 3 C06"),
]

PENDING = {}
