#!/venv/bin/python
"""tools/ledger_add.py <id> <property> <status> <commit|-> <check> <replay.json|-> <what...>
Appends a finding to known_findings.json and copies the replay case to regress/."""
import json, os, sys
HERE = os.path.dirname(os.path.dirname(os.path.abspath(__file__)))
fid, prop, status, commit, check, replay = sys.argv[1:7]
what = " ".join(sys.argv[7:])
led_p = os.path.join(HERE, "known_findings.json")
led = json.load(open(led_p))
assert not any(f["id"] == fid for f in led["findings"]), "duplicate id"
entry = {"id": fid, "property": prop, "status": status, "what": what}
if status == "fixed":
    entry["commit"] = commit
    entry["line"] = f"fixed: property={prop} {commit} {what}"
else:
    entry["line"] = f"known: property={prop} {what}"
if replay != "-":
    rec = json.load(open(replay))
    out = {"property": prop, "check": rec.get("check", check), "finding": fid, "what": what, "case": rec["case"]}
    rp = os.path.join(HERE, "regress", f"{fid}.json")
    assert fid.startswith(prop + "-")
    json.dump(out, open(rp, "w"), indent=1, sort_keys=True)
    entry["reproducer"] = f"regress/{fid}.json"
led["findings"].append(entry)
json.dump(led, open(led_p, "w"), indent=1)
print("added", fid)
