#!/bin/bash
# Offline, idempotent: make sure hypothesis is importable from /venv.
set -e
export PIP_NO_INDEX=1
if ! /venv/bin/python -c "import hypothesis" 2>/dev/null; then
  /venv/bin/pip install --no-index --find-links /opt/veriftools/wheels hypothesis
fi
/venv/bin/python -c "import hypothesis, praatio; print('setup ok: hypothesis', hypothesis.__version__)"
