#!/bin/bash
# Offline, idempotent: hypothesis importable from /venv; atheris (thorough tier only) under /verif/.deps.
set -e
cd "$(dirname "$0")"
export PIP_NO_INDEX=1
if ! /venv/bin/python -c "import hypothesis" 2>/dev/null; then
  /venv/bin/pip install --no-index --find-links /opt/veriftools/wheels hypothesis
fi
if ! PYTHONPATH=/verif/.deps /venv/bin/python -c "import atheris" 2>/dev/null; then
  /venv/bin/pip install --no-index --find-links /opt/veriftools/wheels --target /verif/.deps atheris >/dev/null 2>&1 \
    || echo "note: atheris not installable; the thorough tier will skip its coverage-guided campaigns"
fi
/venv/bin/python -c "import hypothesis, praatio; print('setup ok: hypothesis', hypothesis.__version__)"
